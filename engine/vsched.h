#ifndef VF_SCHED_H
#define VF_SCHED_H
#define SCHED_MAXT 4
typedef void (*sched_body_t)(void *);
typedef struct {
	int n_enabled;        /* threads that could run next at this point */
	int running_enabled;  /* the running thread could continue: choosing another one costs a preemption */
	int thread;           /* thread that reached the point (-1: before the first thread started) */
} sched_point_t;
/* run n thread bodies under the scheduler; choices beyond the prefix are 0 (continue / lowest id).
 * returns 0, -1 if a prefix choice was out of range (divergence), -2 if more than cap points occurred, -3 if the execution made no
 * progress for sched_horizon_s seconds (a thread blocked outside the scheduler; the threads are then still alive) */
extern int sched_horizon_s;
int sched_run(int n, sched_body_t *bodies, void **args, const int *prefix, int prefix_len, sched_point_t *points, int *choices, int cap, int *npoints);
void sched_point(void);   /* call at every scheduling point (no-op outside scheduled threads) */
int sched_self(void);
#endif
