/* Token assembly and the independent token reference (ref_token). Header-only. */
#ifndef VF_TOK_H
#define VF_TOK_H
#include "vf.h"
#include "ref_b64.h"
#include "keys.h"
#include <jansson.h>
#include <jwt.h>

static const char *const tok_alg_names[16] = { "none", "HS256", "HS384", "HS512", "RS256", "RS384", "RS512", "ES256", "ES384",
					       "ES512", "PS256", "PS384", "PS512", "ES256K", "EdDSA", NULL };

/* exact, case-sensitive name -> enum; JWT_ALG_INVAL for anything else */
static inline jwt_alg_t tok_alg_of(const char *s)
{
	if (!s)
		return JWT_ALG_INVAL;
	for (int i = 0; i < 15; i++)
		if (!strcmp(s, tok_alg_names[i]))
			return (jwt_alg_t)i;
	return JWT_ALG_INVAL;
}

/* json_dumps into plain malloc memory (the jansson buffer is released through jansson's own free function,
 * so block accounting of the harness allocator stays balanced) */
static inline char *tok_jdump(const json_t *j, size_t flags)
{
	json_malloc_t m;
	json_free_t f;
	char *d = json_dumps(j, flags);
	if (!d)
		return NULL;
	char *r = strdup(d);
	json_get_alloc_funcs(&m, &f);
	f(d);
	return r;
}

static inline char *tok_b64(const void *p, size_t n)
{
	char *b = malloc(4 * ((n + 2) / 3) + 8);
	ref_b64_encode(p, n, b);
	return b;
}

/* header.payload (malloc) from two JSON texts */
static inline char *tok_signing_input(const char *hjson, const char *pjson)
{
	char *h = tok_b64(hjson, strlen(hjson)), *p = tok_b64(pjson, strlen(pjson));
	char *r = malloc(strlen(h) + strlen(p) + 2);
	sprintf(r, "%s.%s", h, p);
	free(h);
	free(p);
	return r;
}

/* signing_input "." b64(sig) (malloc) */
static inline char *tok_attach(const char *input, const void *sig, size_t siglen)
{
	char *s = tok_b64(sig, siglen);
	char *r = malloc(strlen(input) + strlen(s) + 2);
	sprintf(r, "%s.%s", input, s);
	free(s);
	return r;
}

/* ---- ref_token: what an independent consumer sees in a compact JWS ---- */
typedef struct {
	int dots;                /* number of dots found among the first two searched */
	char *seg[3];            /* malloc'd copies; seg[2] is everything after the second dot */
	size_t input_len;        /* length of seg0 "." seg1 inside the original */
	unsigned char *dec[3];
	long declen[3];          /* -1: does not decode (strict base64url, non-empty) */
	json_t *head, *payload;
	const char *alg_text;    /* header alg when it is a JSON string, else NULL */
	jwt_alg_t alg;           /* exact-name lookup of alg_text, JWT_ALG_INVAL otherwise */
	int head_is_object;
} rt_t;

static inline void rt_free(rt_t *t)
{
	for (int i = 0; i < 3; i++) {
		free(t->seg[i]);
		free(t->dec[i]);
	}
	json_decref(t->head);
	json_decref(t->payload);
	memset(t, 0, sizeof *t);
}

/* lenient decode of one segment the way C11 permits: stop at '=', reject foreign before it, len%4==1 */
static inline long rt_decode_lenient(const char *s, unsigned char **out)
{
	size_t n = strlen(s);
	*out = malloc(3 * n / 4 + 4);
	if (ref_b64_must_reject(s, n))
		return -1;
	long l = ref_b64_decode_prefix(s, n, *out);
	return l <= 0 ? -1 : l;   /* an empty decoding is not a document */
}

static inline int rt_parse(const char *tok, rt_t *t)
{
	memset(t, 0, sizeof *t);
	t->alg = JWT_ALG_INVAL;
	const char *d1 = strchr(tok, '.');
	if (!d1)
		return 0;
	t->dots = 1;
	const char *d2 = strchr(d1 + 1, '.');
	if (!d2)
		return 0;
	t->dots = 2;
	t->seg[0] = strndup(tok, d1 - tok);
	t->seg[1] = strndup(d1 + 1, d2 - d1 - 1);
	t->seg[2] = strdup(d2 + 1);
	t->input_len = d2 - tok;
	for (int i = 0; i < 3; i++)
		t->declen[i] = rt_decode_lenient(t->seg[i], &t->dec[i]);
	if (t->declen[0] > 0) {
		/* whole decoded length, no tolerance flags */
		t->head = json_loadb((const char *)t->dec[0], t->declen[0], 0, NULL);
		t->head_is_object = t->head && json_is_object(t->head);
		if (t->head_is_object) {
			json_t *a = json_object_get(t->head, "alg");
			if (a && json_is_string(a) && strlen(json_string_value(a)) == json_string_length(a)) {
				t->alg_text = json_string_value(a);
				t->alg = tok_alg_of(t->alg_text);
			}
		}
	}
	if (t->declen[1] > 0)
		t->payload = json_loadb((const char *)t->dec[1], t->declen[1], JSON_DECODE_ANY, NULL);
	return 1;
}

/* ---- small libjwt conveniences shared by harnesses ---- */
static inline const char *lj_provider_name(long p) { return p == 1 ? "gnutls" : "openssl"; }

static inline void lj_select_provider(long p)
{
	if (jwt_set_crypto_ops(lj_provider_name(p))) {
		fprintf(stderr, "provider %s not compiled in\n", lj_provider_name(p));
		exit(2);
	}
	/* every harness run also has refused switches in its history (they change nothing) */
	(void)jwt_set_crypto_ops("no-such-provider");
	(void)jwt_set_crypto_ops_t((jwt_crypto_provider_t)99);
}
#endif
