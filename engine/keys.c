#define OPENSSL_SUPPRESS_DEPRECATED 1
#include "vf.h"
#include "keys.h"
#include <openssl/pem.h>
#include <openssl/hmac.h>
#include <openssl/rsa.h>
#include <openssl/ec.h>
#include <openssl/ecdsa.h>
#include <openssl/bn.h>
#include <openssl/rand.h>
#include <openssl/sha.h>
#include <openssl/core_names.h>
#include <openssl/err.h>

vk_t vk_pool[64];
int vk_n;

static EVP_PKEY *load_pem(const char *pem, int priv)
{
	BIO *b = BIO_new_mem_buf(pem, -1);
	EVP_PKEY *k = priv ? PEM_read_bio_PrivateKey(b, NULL, NULL, NULL) : PEM_read_bio_PUBKEY(b, NULL, NULL, NULL);
	BIO_free(b);
	return k;
}

static int load_index(const char *sub, vk_t *pool, int *pn)
{
	char path[512];
	json_error_t err;
	snprintf(path, sizeof path, "%s/keys/%sINDEX.json", vf_dir(), sub);
	json_t *idx = json_load_file(path, 0, &err);
	if (!idx) {
		fprintf(stderr, "vk_load: %s: %s\n", path, err.text);
		exit(2);
	}
	size_t i;
	json_t *e;
	json_array_foreach(idx, i, e) {
		vk_t *k = &pool[(*pn)++];
		snprintf(k->name, sizeof k->name, "%s", json_string_value(json_object_get(e, "name")));
		snprintf(k->kty, sizeof k->kty, "%s", json_string_value(json_object_get(e, "kty")));
		if (json_object_get(e, "crv"))
			snprintf(k->crv, sizeof k->crv, "%s", json_string_value(json_object_get(e, "crv")));
		k->bits = json_integer_value(json_object_get(e, "bits"));
		k->pss = json_is_true(json_object_get(e, "pss"));
		snprintf(path, sizeof path, "%s/keys/%s%s.priv.pem", vf_dir(), sub, k->name);
		k->priv_pem = vf_readfile(path, NULL);
		snprintf(path, sizeof path, "%s/keys/%s%s.pub.pem", vf_dir(), sub, k->name);
		k->pub_pem = vf_readfile(path, NULL);
		snprintf(path, sizeof path, "%s/keys/%s%s.priv.jwk", vf_dir(), sub, k->name);
		k->priv_jwk = json_load_file(path, 0, &err);
		snprintf(path, sizeof path, "%s/keys/%s%s.pub.jwk", vf_dir(), sub, k->name);
		k->pub_jwk = json_load_file(path, 0, &err);
		if (!k->priv_pem || !k->pub_pem || !k->priv_jwk || !k->pub_jwk) {
			fprintf(stderr, "vk_load: incomplete key %s\n", k->name);
			exit(2);
		}
		k->pkey_priv = load_pem(k->priv_pem, 1);
		k->pkey_pub = load_pem(k->pub_pem, 0);
		if (!k->pkey_priv || !k->pkey_pub) {
			fprintf(stderr, "vk_load: libcrypto cannot parse %s\n", k->name);
			exit(2);
		}
	}
	json_decref(idx);
	return *pn;
}

int vk_load(void) { return load_index("", vk_pool, &vk_n); }

/* keys kept apart from the pool (harnesses that iterate over the pool do not see them): EC keys on curves outside JOSE
 * (brainpool, small NIST curves) and RSA keys whose modulus is not a whole number of octets (2050, 3001 bits) */
int vk_load_extra(void) { return vk_extra_n ? vk_extra_n : load_index("extra/", vk_extra, &vk_extra_n); }

vk_t vk_extra[16];
int vk_extra_n;
vk_t *vk_get(const char *name)
{
	for (int i = 0; i < vk_n; i++)
		if (!strcmp(vk_pool[i].name, name))
			return &vk_pool[i];
	for (int i = 0; i < vk_extra_n; i++)
		if (!strcmp(vk_extra[i].name, name))
			return &vk_extra[i];
	fprintf(stderr, "vk_get: no key %s\n", name);
	exit(2);
}

static char *plain_dump(const json_t *j)
{
	json_malloc_t m;
	json_free_t f;
	char *d = json_dumps(j, JSON_COMPACT), *r;
	if (!d)
		return NULL;
	r = strdup(d);
	json_get_alloc_funcs(&m, &f);
	f(d);
	return r;
}

char *vk_jwk_text(const vk_t *k, int priv, const char *alg, const char *kid)
{
	json_t *j = json_deep_copy(priv ? k->priv_jwk : k->pub_jwk);
	if (alg)
		json_object_set_new(j, "alg", json_string(alg));
	if (kid)
		json_object_set_new(j, "kid", json_string(kid));
	char *s = plain_dump(j);
	json_decref(j);
	return s;
}

void vk_oct_bytes(int id, unsigned char *out, size_t n)
{
	for (size_t i = 0; i < n; i++)
		out[i] = (unsigned char)(((i + 1) * 37 + id * 101 + (i >> 3) * 11 + 0x41) & 0xff);
}

#include "ref_b64.h"
char *vk_oct_jwk(const unsigned char *key, size_t n, const char *alg, const char *kid)
{
	char *b = malloc(4 * ((n + 2) / 3) + 8);
	ref_b64_encode(key, n, b);
	json_t *j = json_object();
	json_object_set_new(j, "kty", json_string("oct"));
	json_object_set_new(j, "k", json_string(b));
	if (alg)
		json_object_set_new(j, "alg", json_string(alg));
	if (kid)
		json_object_set_new(j, "kid", json_string(kid));
	char *s = plain_dump(j);
	json_decref(j);
	free(b);
	return s;
}

/* ------------------------------------------------------------ reference crypto */
rc_family_t rc_family(jwt_alg_t alg)
{
	switch (alg) {
	case JWT_ALG_NONE: return RC_FAM_NONE;
	case JWT_ALG_HS256: case JWT_ALG_HS384: case JWT_ALG_HS512: return RC_FAM_HS;
	case JWT_ALG_RS256: case JWT_ALG_RS384: case JWT_ALG_RS512: return RC_FAM_RS;
	case JWT_ALG_PS256: case JWT_ALG_PS384: case JWT_ALG_PS512: return RC_FAM_PS;
	case JWT_ALG_ES256: case JWT_ALG_ES256K: case JWT_ALG_ES384: case JWT_ALG_ES512: return RC_FAM_ES;
	case JWT_ALG_EDDSA: return RC_FAM_ED;
	default: return RC_FAM_INVAL;
	}
}

const EVP_MD *rc_md(jwt_alg_t alg)
{
	switch (alg) {
	case JWT_ALG_HS256: case JWT_ALG_RS256: case JWT_ALG_PS256: case JWT_ALG_ES256: case JWT_ALG_ES256K: return EVP_sha256();
	case JWT_ALG_HS384: case JWT_ALG_RS384: case JWT_ALG_PS384: case JWT_ALG_ES384: return EVP_sha384();
	case JWT_ALG_HS512: case JWT_ALG_RS512: case JWT_ALG_PS512: case JWT_ALG_ES512: return EVP_sha512();
	default: return NULL;
	}
}

int rc_es_bits(jwt_alg_t alg)
{
	switch (alg) {
	case JWT_ALG_ES256: case JWT_ALG_ES256K: return 256;
	case JWT_ALG_ES384: return 384;
	case JWT_ALG_ES512: return 521;
	default: return 0;
	}
}

size_t rc_hmac(jwt_alg_t alg, const void *key, size_t keylen, const void *msg, size_t n, unsigned char *out)
{
	unsigned int l = 0;
	static const unsigned char nokey[1] = { 0 };
	if (!HMAC(rc_md(alg), keylen ? key : nokey, (int)keylen, msg, n, out, &l))
		return 0;
	return l;
}

int rc_key_admissible(const vk_t *k, jwt_alg_t alg)
{
	switch (rc_family(alg)) {
	case RC_FAM_RS: case RC_FAM_PS:
		return !strcmp(k->kty, "RSA") && k->bits >= 2048;
	case RC_FAM_ES:
		return !strcmp(k->kty, "EC") && k->bits == rc_es_bits(alg);
	case RC_FAM_ED:
		return !strcmp(k->kty, "OKP") && (!strcmp(k->crv, "Ed25519") || !strcmp(k->crv, "Ed448"));
	default:
		return 0;
	}
}

/* a plain-RSA EVP_PKEY with the same (n, e[, d...]) so that RS* and PS* can both be computed on any RSA key */
static EVP_PKEY *plain_rsa(EVP_PKEY *src, int priv)
{
	unsigned char *der = NULL;
	int len;
	EVP_PKEY *out = NULL;
	RSA *r = (RSA *)EVP_PKEY_get0_RSA(src);
	if (!r)
		return NULL;
	if (priv) {
		len = i2d_RSAPrivateKey(r, &der);
		const unsigned char *p = der;
		RSA *r2 = d2i_RSAPrivateKey(NULL, &p, len);
		out = EVP_PKEY_new();
		EVP_PKEY_assign_RSA(out, r2);
	} else {
		len = i2d_RSAPublicKey(r, &der);
		const unsigned char *p = der;
		RSA *r2 = d2i_RSAPublicKey(NULL, &p, len);
		out = EVP_PKEY_new();
		EVP_PKEY_assign_RSA(out, r2);
	}
	OPENSSL_free(der);
	return out;
}

int rc_sign(const vk_t *k, jwt_alg_t alg, const void *msg, size_t n, unsigned char **sig, size_t *siglen)
{
	rc_family_t fam = rc_family(alg);
	EVP_MD_CTX *ctx = EVP_MD_CTX_new();
	EVP_PKEY_CTX *pctx = NULL;
	EVP_PKEY *key = k->pkey_priv, *tmp = NULL;
	int ret = 1;
	size_t sl = 0;
	unsigned char *s = NULL;
	*sig = NULL;
	*siglen = 0;
	if ((fam == RC_FAM_RS || fam == RC_FAM_PS) && !strcmp(k->kty, "RSA"))
		key = tmp = plain_rsa(k->pkey_priv, 1);
	else if (fam == RC_FAM_ES && strcmp(k->kty, "EC"))
		goto done;
	else if (fam == RC_FAM_ED && strcmp(k->kty, "OKP"))
		goto done;
	else if (fam != RC_FAM_ES && fam != RC_FAM_ED)
		goto done;
	if (!key)
		goto done;
	if (EVP_DigestSignInit(ctx, &pctx, fam == RC_FAM_ED ? NULL : rc_md(alg), NULL, key) != 1)
		goto done;
	if (fam == RC_FAM_PS) {
		if (EVP_PKEY_CTX_set_rsa_padding(pctx, RSA_PKCS1_PSS_PADDING) <= 0 ||
		    EVP_PKEY_CTX_set_rsa_pss_saltlen(pctx, RSA_PSS_SALTLEN_DIGEST) <= 0 ||
		    EVP_PKEY_CTX_set_rsa_mgf1_md(pctx, rc_md(alg)) <= 0)
			goto done;
	}
	if (EVP_DigestSign(ctx, NULL, &sl, msg, n) != 1)
		goto done;
	s = malloc(sl + 8);
	if (EVP_DigestSign(ctx, s, &sl, msg, n) != 1)
		goto done;
	if (fam == RC_FAM_ES) {
		const unsigned char *p = s;
		ECDSA_SIG *es = d2i_ECDSA_SIG(NULL, &p, sl);
		if (!es)
			goto done;
		int w = (k->bits + 7) / 8;
		unsigned char *raw = calloc(1, 2 * w);
		BN_bn2binpad(ECDSA_SIG_get0_r(es), raw, w);
		BN_bn2binpad(ECDSA_SIG_get0_s(es), raw + w, w);
		ECDSA_SIG_free(es);
		free(s);
		s = raw;
		sl = 2 * w;
	}
	*sig = s;
	*siglen = sl;
	s = NULL;
	ret = 0;
done:
	free(s);
	EVP_MD_CTX_free(ctx);
	EVP_PKEY_free(tmp);
	return ret;
}

/* Everything a key can sign by its own nature, in every encoding a provider's native verification takes: ECDSA over SHA-256/384/512
 * as r||s and as DER; RSA PKCS#1 v1.5 and PSS over the three hashes; EdDSA.  A verifier that lets the key decide what the
 * signature is (instead of the pinned algorithm) accepts one of these under the wrong header. */
int rc_native_count(const vk_t *k)
{
	if (!k || !k->pkey_priv)
		return 0;
	return !strcmp(k->kty, "OKP") ? 1 : 6;
}
int rc_native_sign(const vk_t *k, int variant, const void *msg, size_t n, unsigned char **sig, size_t *siglen, const char **label)
{
	static const char *ec_l[6] = { "ECDSA-SHA256 r||s", "ECDSA-SHA384 r||s", "ECDSA-SHA512 r||s", "ECDSA-SHA256 DER", "ECDSA-SHA384 DER", "ECDSA-SHA512 DER" };
	static const char *rsa_l[6] = { "RSA-PKCS1-SHA256", "RSA-PKCS1-SHA384", "RSA-PKCS1-SHA512", "RSA-PSS-SHA256", "RSA-PSS-SHA384", "RSA-PSS-SHA512" };
	static const jwt_alg_t hash_of[3] = { JWT_ALG_HS256, JWT_ALG_HS384, JWT_ALG_HS512 };
	*sig = NULL;
	*siglen = 0;
	if (variant < 0 || variant >= rc_native_count(k))
		return 1;
	if (!strcmp(k->kty, "OKP")) {
		if (label) *label = "EdDSA";
		return rc_sign(k, JWT_ALG_EDDSA, msg, n, sig, siglen);
	}
	int ec = !strcmp(k->kty, "EC"), second = variant >= 3;
	const EVP_MD *md = rc_md(hash_of[variant % 3]);
	if (label) *label = ec ? ec_l[variant] : rsa_l[variant];
	EVP_MD_CTX *ctx = EVP_MD_CTX_new();
	EVP_PKEY_CTX *pctx = NULL;
	EVP_PKEY *tmp = ec ? NULL : plain_rsa(k->pkey_priv, 1), *key = ec ? k->pkey_priv : tmp;
	unsigned char *s = NULL;
	size_t sl = 0;
	int ret = 1;
	if (!key || EVP_DigestSignInit(ctx, &pctx, md, NULL, key) != 1)
		goto done;
	if (!ec && second &&
	    (EVP_PKEY_CTX_set_rsa_padding(pctx, RSA_PKCS1_PSS_PADDING) <= 0 || EVP_PKEY_CTX_set_rsa_pss_saltlen(pctx, RSA_PSS_SALTLEN_DIGEST) <= 0 ||
	     EVP_PKEY_CTX_set_rsa_mgf1_md(pctx, md) <= 0))
		goto done;
	if (EVP_DigestSign(ctx, NULL, &sl, msg, n) != 1)
		goto done;
	s = malloc(sl + 8);
	if (EVP_DigestSign(ctx, s, &sl, msg, n) != 1)
		goto done;
	if (ec && !second) {
		const unsigned char *p = s;
		ECDSA_SIG *es = d2i_ECDSA_SIG(NULL, &p, sl);
		if (!es)
			goto done;
		int w = (k->bits + 7) / 8;
		unsigned char *raw = calloc(1, 2 * w);
		BN_bn2binpad(ECDSA_SIG_get0_r(es), raw, w);
		BN_bn2binpad(ECDSA_SIG_get0_s(es), raw + w, w);
		ECDSA_SIG_free(es);
		free(s);
		s = raw;
		sl = 2 * w;
	}
	*sig = s;
	*siglen = sl;
	s = NULL;
	ret = 0;
done:
	free(s);
	EVP_MD_CTX_free(ctx);
	EVP_PKEY_free(tmp);
	return ret;
}

int rc_lenient_width = 1;   /* 1 (the documented C01 oracle): RSA / ECDSA signatures are judged as integers, whatever their zero-padded width; 0: RFC 7518 widths only */
static int rc_verify_inner(const vk_t *k, jwt_alg_t alg, const void *msg, size_t n, const unsigned char *sig, size_t siglen)
{
	rc_family_t fam = rc_family(alg);
	EVP_MD_CTX *ctx = NULL;
	EVP_PKEY_CTX *pctx = NULL;
	EVP_PKEY *key = k->pkey_pub, *tmp = NULL;
	unsigned char *buf = NULL;
	int ok = 0;

	if (fam == RC_FAM_RS || fam == RC_FAM_PS) {
		if (strcmp(k->kty, "RSA"))
			return 0;
		key = tmp = plain_rsa(k->pkey_pub, 0);
		/* integer level, value below n; the octet string must have the length of the modulus (RFC 8017 8.2.2 step 1,
		 * RFC 7518 3.3): a longer, zero-led string is an extended signature, not a valid one */
		int mlen = EVP_PKEY_get_size(key);
		if ((int)siglen != mlen && !rc_lenient_width) {
			EVP_PKEY_free(tmp);
			return 0;
		}
		BIGNUM *v = BN_bin2bn(sig, (int)siglen, NULL);
		BIGNUM *nn = NULL;
		EVP_PKEY_get_bn_param(key, OSSL_PKEY_PARAM_RSA_N, &nn);
		if (!v || !nn || siglen == 0 || BN_cmp(v, nn) >= 0) {
			BN_free(v); BN_free(nn);
			goto done;
		}
		buf = malloc(mlen);
		BN_bn2binpad(v, buf, mlen);
		BN_free(v); BN_free(nn);
		sig = buf;
		siglen = mlen;
	} else if (fam == RC_FAM_ES) {
		if (strcmp(k->kty, "EC") || siglen == 0 || (siglen & 1))
			return 0;
		/* R and S are fixed-width octet strings of the curve's size (RFC 7518 3.4) */
		if (siglen != 2 * (size_t)((k->bits + 7) / 8) && !rc_lenient_width)
			return 0;
		ECDSA_SIG *es = ECDSA_SIG_new();
		BIGNUM *r = BN_bin2bn(sig, (int)(siglen / 2), NULL);
		BIGNUM *s = BN_bin2bn(sig + siglen / 2, (int)(siglen / 2), NULL);
		ECDSA_SIG_set0(es, r, s);
		int dl = i2d_ECDSA_SIG(es, NULL);
		buf = malloc(dl + 8);
		unsigned char *p = buf;
		dl = i2d_ECDSA_SIG(es, &p);
		ECDSA_SIG_free(es);
		sig = buf;
		siglen = dl;
	} else if (fam == RC_FAM_ED) {
		if (strcmp(k->kty, "OKP"))
			return 0;
	} else
		return 0;

	ctx = EVP_MD_CTX_new();
	if (EVP_DigestVerifyInit(ctx, &pctx, fam == RC_FAM_ED ? NULL : rc_md(alg), NULL, key) != 1)
		goto done;
	if (fam == RC_FAM_PS) {
		if (EVP_PKEY_CTX_set_rsa_padding(pctx, RSA_PKCS1_PSS_PADDING) <= 0 ||
		    EVP_PKEY_CTX_set_rsa_pss_saltlen(pctx, RSA_PSS_SALTLEN_AUTO) <= 0 ||
		    EVP_PKEY_CTX_set_rsa_mgf1_md(pctx, rc_md(alg)) <= 0)
			goto done;
	}
	ok = EVP_DigestVerify(ctx, sig, siglen, msg, n) == 1;
done:
	EVP_MD_CTX_free(ctx);
	EVP_PKEY_free(tmp);
	free(buf);
	return ok;
}

/* the reference leaves the thread's OpenSSL error queue exactly as it found it: whatever libjwt left there stays there
 * (code that consults the queue must cope with entries of earlier failures), and nothing of the reference's own is added */
int rc_verify(const vk_t *k, jwt_alg_t alg, const void *msg, size_t n, const unsigned char *sig, size_t siglen)
{
	ERR_set_mark();
	int ok = rc_verify_inner(k, alg, msg, n, sig, siglen);
	ERR_pop_to_mark();
	return ok;
}

/* ------------------------------------------------------------ deterministic RNG */
static uint64_t rng_seed, rng_ctr;
static unsigned char rng_pool[32];
static int rng_left;

static int drbg_bytes(unsigned char *out, int n)
{
	while (n > 0) {
		if (rng_left == 0) {
			uint64_t in[2] = { rng_seed, rng_ctr++ };
			SHA256((unsigned char *)in, sizeof in, rng_pool);
			rng_left = 32;
		}
		*out++ = rng_pool[32 - rng_left];
		rng_left--;
		n--;
	}
	return 1;
}
static int drbg_status(void) { return 1; }
static int drbg_seed(const void *b, int n) { (void)b; (void)n; return 1; }
static int drbg_add(const void *b, int n, double e) { (void)b; (void)n; (void)e; return 1; }
static RAND_METHOD drbg_method = { drbg_seed, drbg_bytes, NULL, drbg_add, drbg_bytes, drbg_status };

void rc_rng_install(void) { RAND_set_rand_method(&drbg_method); }
void rc_rng_reseed(uint64_t seed)
{
	rng_seed = seed ^ 0x5eedULL;
	rng_ctr = 0;
	rng_left = 0;
}

/* ------------------------------------------------------------ libcrypto allocation accounting */
static long ossl_live;
static int ossl_tracked;
/* called before every OPENSSL_malloc/realloc/free that libjwt's own code makes (the caller's __FILE__ says so): those are
 * safe scheduling points -- libcrypto holds none of its locks there -- while allocations inside libcrypto are not */
void (*rc_alloc_hook)(void);
static void t_hook(const char *f)
{
	if (rc_alloc_hook && f && strstr(f, "libjwt/"))
		rc_alloc_hook();
}
static void *t_malloc(size_t n, const char *f, int l) { (void)l; t_hook(f); void *p = malloc(n ? n : 1); if (p) ossl_live++; return p; }
static void *t_realloc(void *p, size_t n, const char *f, int l)
{
	(void)l;
	if (!p)
		return t_malloc(n, f, l);
	t_hook(f);
	if (n == 0) {
		ossl_live--;
		free(p);
		return NULL;
	}
	return realloc(p, n);
}
static void t_free(void *p, const char *f, int l) { (void)l; if (p) { t_hook(f); ossl_live--; } free(p); }
int rc_track_alloc(void)
{
	ossl_tracked = CRYPTO_set_mem_functions(t_malloc, t_realloc, t_free);
	return ossl_tracked;
}
long rc_alloc_live(void) { return ossl_live; }
long vk_live(void)
{
	/* the per-thread OpenSSL error queue keeps malloc'd strings of up to 16 entries: not a leak */
	ERR_clear_error();
	return vf_alloc_live() + ossl_live;
}
