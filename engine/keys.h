/* Key pool (/verif/keys) and independent crypto reference on libcrypto primitives. */
#ifndef VK_KEYS_H
#define VK_KEYS_H
#include <jansson.h>
#include <jwt.h>
#include <openssl/evp.h>

typedef struct {
	char name[32];
	char kty[8];   /* RSA EC OKP */
	char crv[16];
	int bits;
	int pss;
	char *priv_pem, *pub_pem;
	json_t *priv_jwk, *pub_jwk;    /* independently written JWKs (no alg/kid/use) */
	EVP_PKEY *pkey_priv, *pkey_pub; /* loaded by libcrypto from the PEM: never from libjwt */
} vk_t;

extern vk_t vk_pool[64];
extern int vk_n;

int vk_load(void);
extern vk_t vk_extra[16];
extern int vk_extra_n;
int vk_load_extra(void);   /* keys/extra: EC keys on curves outside JOSE */
vk_t *vk_get(const char *name);
/* JWK text (malloc) of a pool key with optional extra members */
char *vk_jwk_text(const vk_t *k, int priv, const char *alg, const char *kid);
/* JWK text (malloc) of an oct key */
char *vk_oct_jwk(const unsigned char *key, size_t n, const char *alg, const char *kid);
/* deterministic oct key material: byte i of key number `id` */
void vk_oct_bytes(int id, unsigned char *out, size_t n);

/* ---- reference crypto ---- */
typedef enum { RC_FAM_NONE, RC_FAM_HS, RC_FAM_RS, RC_FAM_PS, RC_FAM_ES, RC_FAM_ED, RC_FAM_INVAL } rc_family_t;
rc_family_t rc_family(jwt_alg_t alg);
const EVP_MD *rc_md(jwt_alg_t alg);
int rc_es_bits(jwt_alg_t alg); /* field size demanded by ES* */

/* HMAC into out (>= 64 bytes); returns length */
size_t rc_hmac(jwt_alg_t alg, const void *key, size_t keylen, const void *msg, size_t n, unsigned char *out);
/* sign with the pool key's private half; sig is malloc'd raw JWS form (r||s fixed width for ES*). 0 on success */
int rc_sign(const vk_t *k, jwt_alg_t alg, const void *msg, size_t n, unsigned char **sig, size_t *siglen);
/* integer-level verification with the pool key's public half: 1 valid, 0 not */
extern int rc_lenient_width;
int rc_verify(const vk_t *k, jwt_alg_t alg, const void *msg, size_t n, const unsigned char *sig, size_t siglen);
int rc_native_count(const vk_t *k);   /* signatures the key can make by its own nature: every hash, every encoding */
int rc_native_sign(const vk_t *k, int variant, const void *msg, size_t n, unsigned char **sig, size_t *siglen, const char **label);
/* is (alg, key) inside the family / size rules of C02 + C09 (RSA >= 2048, EC size match, Ed25519/Ed448) */
int rc_key_admissible(const vk_t *k, jwt_alg_t alg);

/* count libcrypto allocations too (call first thing in main, before any OpenSSL use); returns 1 if installed */
int rc_track_alloc(void);
extern void (*rc_alloc_hook)(void);   /* before each libcrypto allocation call made directly by libjwt code */
long rc_alloc_live(void);
/* live blocks of libjwt+jansson (vf allocator) plus libcrypto (when tracked) */
long vk_live(void);

/* deterministic RNG for libcrypto (ECDSA / PSS nonces); reseed at the start of every case */
void rc_rng_install(void);
void rc_rng_reseed(uint64_t seed);
#endif
