/* Cooperative scheduler for C18: real pthreads, exactly one runs at a time, the schedule is a list of
 * choices made at scheduling points.  This translation unit is never sanitizer-instrumented.       */
#define _GNU_SOURCE
#include "vsched.h"
#include <pthread.h>
#include <semaphore.h>
#include <stdlib.h>
#include <string.h>
#include <stdio.h>
#include <errno.h>
#include <time.h>

int sched_horizon_s = 20;

static sem_t sem[SCHED_MAXT], sem_main;
static int nthreads, finished[SCHED_MAXT];
static volatile int running = -1;       /* id of the thread that holds the token, -1 = none (main) */
static int active;
static __thread int my_id = -1;

static const int *prefix;
static int prefix_len;
static sched_point_t *points;
static int *choices;
static int npoints, cap_points;
static int overflow, bad_choice;

static sched_body_t bodies[SCHED_MAXT];
static void *args[SCHED_MAXT];

int sched_self(void) { return active ? my_id : -1; }

/* enabled threads in canonical order: the running thread first if still enabled, then ascending ids */
static int enabled_list(int self_enabled, int self, int *out)
{
	int n = 0;
	if (self_enabled)
		out[n++] = self;
	for (int i = 0; i < nthreads; i++)
		if (!finished[i] && i != self)
			out[n++] = i;
	return n;
}

static int choose(int self, int self_enabled)
{
	int en[SCHED_MAXT];
	int n = enabled_list(self_enabled, self, en);
	if (n == 0)
		return -1;
	int c = 0;
	if (npoints < prefix_len) {
		c = prefix[npoints];
		if (c < 0 || c >= n) {
			bad_choice = 1;   /* divergence while replaying a prefix: hard error, reported by the caller */
			c = 0;
		}
	}
	if (npoints < cap_points) {
		points[npoints].n_enabled = n;
		points[npoints].running_enabled = self_enabled;
		points[npoints].thread = self;
		choices[npoints] = c;
	} else
		overflow = 1;
	npoints++;
	return en[c];
}

void sched_point(void)
{
	if (!active || my_id < 0 || running != my_id)
		return;
	int next = choose(my_id, 1);
	if (next == my_id)
		return;
	running = next;
	sem_post(&sem[next]);
	sem_wait(&sem[my_id]);
}

static void *trampoline(void *p)
{
	int id = (int)(long)p;
	my_id = id;
	sem_wait(&sem[id]);
	bodies[id](args[id]);
	/* thread exit: hand the token on (not a preemption) */
	finished[id] = 1;
	int next = choose(id, 0);
	my_id = -1;
	if (next < 0) {
		running = -1;
		sem_post(&sem_main);
	} else {
		running = next;
		sem_post(&sem[next]);
	}
	return NULL;
}

int sched_run(int n, sched_body_t *b, void **a, const int *pfx, int pfx_len, sched_point_t *pts, int *chs, int cap, int *np)
{
	pthread_t th[SCHED_MAXT];
	nthreads = n;
	prefix = pfx;
	prefix_len = pfx_len;
	points = pts;
	choices = chs;
	cap_points = cap;
	npoints = 0;
	overflow = bad_choice = 0;
	sem_init(&sem_main, 0, 0);
	for (int i = 0; i < n; i++) {
		sem_init(&sem[i], 0, 0);
		finished[i] = 0;
		bodies[i] = b[i];
		args[i] = a[i];
	}
	active = 1;
	for (int i = 0; i < n; i++)
		pthread_create(&th[i], NULL, trampoline, (void *)(long)i);
	/* the first thread to run is a choice too (no thread is running: cost-free) */
	int first = choose(-1, 0);
	running = first;
	sem_post(&sem[first]);
	/* horizon: one execution takes milliseconds; a thread that blocks outside the scheduler (a lock of the code under test that
	 * nobody will release, a wait on freed memory) would otherwise stall the exploration for good */
	{
		struct timespec ts;
		clock_gettime(CLOCK_REALTIME, &ts);
		ts.tv_sec += sched_horizon_s;
		int r;
		while ((r = sem_timedwait(&sem_main, &ts)) != 0 && errno == EINTR)
			;
		if (r != 0) {
			*np = npoints;
			return -3;   /* the threads are still there: the caller must not go on in this process */
		}
	}
	for (int i = 0; i < n; i++)
		pthread_join(th[i], NULL);
	active = 0;
	running = -1;
	*np = npoints;
	return overflow ? -2 : bad_choice ? -1 : 0;
}
