/* Independent base64url reference (RFC 4648 section 5), sharing no code with libjwt. */
#ifndef REF_B64_H
#define REF_B64_H
#include <stddef.h>
#include <string.h>

static const char ref_b64_abc[] = "ABCDEFGHIJKLMNOPQRSTUVWXYZabcdefghijklmnopqrstuvwxyz0123456789-_";

/* value of one character in either alphabet, -1 if foreign */
static inline int ref_b64_val(unsigned char c)
{
	if (c >= 'A' && c <= 'Z') return c - 'A';
	if (c >= 'a' && c <= 'z') return c - 'a' + 26;
	if (c >= '0' && c <= '9') return c - '0' + 52;
	if (c == '-' || c == '+') return 62;
	if (c == '_' || c == '/') return 63;
	return -1;
}

/* unpadded base64url; out must hold 4*ceil(n/3)+1 bytes; returns length */
static inline size_t ref_b64_encode(const unsigned char *in, size_t n, char *out)
{
	size_t o = 0, i = 0;
	while (i + 3 <= n) {
		unsigned v = (in[i] << 16) | (in[i + 1] << 8) | in[i + 2];
		out[o++] = ref_b64_abc[v >> 18];
		out[o++] = ref_b64_abc[(v >> 12) & 63];
		out[o++] = ref_b64_abc[(v >> 6) & 63];
		out[o++] = ref_b64_abc[v & 63];
		i += 3;
	}
	if (n - i == 1) {
		unsigned v = in[i] << 16;
		out[o++] = ref_b64_abc[v >> 18];
		out[o++] = ref_b64_abc[(v >> 12) & 63];
	} else if (n - i == 2) {
		unsigned v = (in[i] << 16) | (in[i + 1] << 8);
		out[o++] = ref_b64_abc[v >> 18];
		out[o++] = ref_b64_abc[(v >> 12) & 63];
		out[o++] = ref_b64_abc[(v >> 6) & 63];
	}
	out[o] = 0;
	return o;
}

/* Must the text be rejected according to the C11 statement?
 * 1 = a foreign byte precedes any '=' ; 2 = length is 1 mod 4 ; 0 = no demand */
static inline int ref_b64_must_reject(const char *s, size_t n)
{
	for (size_t i = 0; i < n; i++) {
		if (s[i] == '=')
			break;
		if (ref_b64_val((unsigned char)s[i]) < 0)
			return 1;
	}
	if (n % 4 == 1)
		return 2;
	return 0;
}

/* Reference decoding of the text before the first '=' (whole bytes only).
 * Returns -1 if a foreign byte occurs in that prefix.  out must hold 3*n/4+3. */
static inline long ref_b64_decode_prefix(const char *s, size_t n, unsigned char *out)
{
	unsigned acc = 0;
	int bits = 0;
	long o = 0;
	for (size_t i = 0; i < n; i++) {
		if (s[i] == '=')
			break;
		int v = ref_b64_val((unsigned char)s[i]);
		if (v < 0)
			return -1;
		acc = (acc << 6) | (unsigned)v;
		bits += 6;
		if (bits >= 8) {
			bits -= 8;
			out[o++] = (acc >> bits) & 0xff;
		}
	}
	return o;
}

/* Strict decoding used by the token/JWK references: whole string, no '=', no
 * foreign byte, length not 1 mod 4.  Returns -1 on any of those. */
static inline long ref_b64_decode_strict(const char *s, size_t n, unsigned char *out)
{
	if (n % 4 == 1)
		return -1;
	for (size_t i = 0; i < n; i++)
		if (s[i] == '=' || ref_b64_val((unsigned char)s[i]) < 0)
			return -1;
	return ref_b64_decode_prefix(s, n, out);
}
#endif
