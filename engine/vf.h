/* vf -- tiny exhaustive-enumeration runtime shared by all harnesses.
 *
 * A harness supplies one function that enumerates its whole (bounded) case
 * space in a fixed order, calling vf_case() once per case.  vf shards the
 * cases over worker processes by index, isolates crashes (each shard is a
 * supervisor that re-forks a worker after a crash at index+1), enforces a
 * per-case watchdog, owns the clock and the allocator, and records
 * violations, distinct outcomes and distinct non-trivial cases.
 */
#ifndef VF_H
#define VF_H

#include <stdint.h>
#include <stddef.h>
#include <stdio.h>
#include <stdlib.h>
#include <string.h>
#include <time.h>

extern time_t vf_now;        /* value returned by time() (harness-owned clock) */
extern void (*vf_time_hook)(void);   /* called on every time() call (scheduler point) */
extern int vf_thorough;      /* 0 = quick tier, 1 = thorough tier */
extern const char *vf_prop;  /* --prop argument ("" if none) */
extern int vf_replaying;     /* 1 when running a single case by index */
extern long vf_param;        /* --param N (harness-specific) */

int vf_main(int argc, char **argv, void (*enumerate)(void));

/* Begin the next case.  Returns 1 if this process must execute it. */
int vf_case(const char *fmt, ...) __attribute__((format(printf, 1, 2)));
/* index of the case begun by the last vf_case() call */
long vf_case_index(void);

void vf_violation(const char *key, const char *fmt, ...) __attribute__((format(printf, 2, 3)));
void vf_obs(uint64_t h);             /* fold an observation into this case's outcome */
void vf_obs_str(const char *s);
void vf_nontrivial(uint64_t h);      /* this case is non-trivial; h identifies it */
void vf_nontrivial_case(void);       /* same, identified by the case descriptor */
void vf_count(const char *name, long n);   /* named counters, summed over shards */
void vf_note(const char *fmt, ...) __attribute__((format(printf, 1, 2)));  /* free text into the summary */

uint64_t vf_hash(const void *p, size_t n);
uint64_t vf_hash_str(const char *s);
uint64_t vf_hash_mix(uint64_t a, uint64_t b);

/* ---- allocator owned by the harness (installed through jwt_set_alloc) ---- */
void vf_alloc_install(void);
void vf_lfree(void *p);            /* free a block the library allocated (tokens, GET_JSON text) keeping the count balanced */
void vf_alloc_guard(int on);
void vf_alloc_recycle(int on);   /* freed blocks are reused LIFO per size (address reuse made certain); parked blocks are poisoned */
long vf_alloc_reused(void);
void vf_alloc_track(int on);     /* remember every block handed out; report a free of anything else (switch on before the first library allocation) */
long vf_alloc_foreign(void);       /* guard-page placement for blocks allocated from now on (switch only when no block is live) */
long vf_alloc_live(void);           /* live blocks handed out and not yet freed */
long vf_alloc_total(void);          /* allocation requests so far */
void vf_alloc_reset_counter(void);
void vf_alloc_fail_at(long k);      /* k-th request from now returns NULL (0 = never) */
long vf_alloc_failed(void);         /* number of injected failures delivered */
extern void (*vf_alloc_hook)(int is_free);  /* called before every request (scheduler point) */

/* leak probe: returns 1 if LeakSanitizer (when linked) finds new leaks */
int vf_lsan_check(void);
long vf_heap_live(void);   /* live blocks of the whole process heap (sanitizer builds), else -1 */

/* small helpers */
char *vf_readfile(const char *path, size_t *len);
char *vf_hex(const void *p, size_t n);           /* static ring buffer */
char *vf_esc(const char *s);                     /* JSON-escaped, static ring buffer */
char *vf_escn(const char *s, size_t n);
const char *vf_dir(void);                        /* /verif */

#endif
