/* Key rotation: a service loads a keyring, signs/verifies, frees it, loads the next one.  Every round's objects are
 * freed before the next round's are created and the allocator hands freed addresses out again at once
 * (vf_alloc_recycle), so a new key item, builder or checker sits where an old one sat.  Anything the library or a
 * provider glue layer remembers about an object beyond its lifetime (a key cache indexed by address, a "last key")
 * shows up as a token signed with, or checked against, the wrong key.
 *
 * Used by C12 (both providers must agree with the reference and with each other) and C05 (what the builder
 * returns is accepted by a checker holding the corresponding key). */
#ifndef VF_ROTATE_H
#define VF_ROTATE_H
#include "vf.h"
#include "keys.h"
#include "tok.h"

typedef struct {
	const char *name;
	jwt_alg_t alg;
	const char *key[2];      /* pool keys, or NULL for oct */
} rot_family_t;

static const rot_family_t ROT_FAM[] = {
	{ "HS256", JWT_ALG_HS256, { NULL, NULL } },
	{ "RS256", JWT_ALG_RS256, { "rsa2048a", "rsa2048b" } },
	{ "PS256", JWT_ALG_PS256, { "rsa2048a", "rsa2048b" } },
	{ "ES256", JWT_ALG_ES256, { "p256a", "p256b" } },
	{ "EdDSA", JWT_ALG_EDDSA, { "ed25519a", "ed25519b" } },
};
#define ROT_NFAM ((int)(sizeof ROT_FAM / sizeof *ROT_FAM))

/* which key each round uses: alternation, repetition, return to the first */
static const int ROT_SEQ[][8] = {
	{ 0, 1, 0, 1, 1, 0, -1 },
	{ 0, 0, 1, 0, -1 },
	{ 1, 0, 0, 1, -1 },
};
#define ROT_NSEQ ((int)(sizeof ROT_SEQ / sizeof *ROT_SEQ))

static long rot_rounds, rot_checks;

/* reference-made token for key `which` of the family (malloc) */
static char *rot_ref_token(const rot_family_t *f, int which, const unsigned char oct[2][32], int round)
{
	char hdr[64], pl[64];
	snprintf(hdr, sizeof hdr, "{\"alg\":\"%s\"}", tok_alg_names[f->alg]);
	snprintf(pl, sizeof pl, "{\"ref\":%d,\"key\":%d}", round, which);
	char *input = tok_signing_input(hdr, pl);
	unsigned char *sig = NULL, mac[64];
	size_t sl = 0;
	char *t = NULL;
	if (!f->key[0]) {
		sl = rc_hmac(f->alg, oct[which], 32, input, strlen(input), mac);
		t = tok_attach(input, mac, sl);
	} else if (!rc_sign(vk_get(f->key[which]), f->alg, input, strlen(input), &sig, &sl)) {
		t = tok_attach(input, sig, sl);
		free(sig);
	}
	free(input);
	return t;
}

/* is the library-made token validly signed by key `which`, judged by the reference? */
static int rot_ref_valid(const rot_family_t *f, int which, const unsigned char oct[2][32], const char *tok)
{
	rt_t t;
	int ok = 0;
	rt_parse(tok, &t);
	if (t.dots == 2 && t.dec[2]) {
		if (!f->key[0]) {
			unsigned char mac[64];
			size_t l = rc_hmac(f->alg, oct[which], 32, tok, t.input_len, mac);
			ok = l == t.declen[2] && !memcmp(mac, t.dec[2], l);
		} else
			ok = rc_verify(vk_get(f->key[which]), f->alg, tok, t.input_len, t.dec[2], t.declen[2]);
	}
	rt_free(&t);
	return ok;
}

/* one rotation history; sp/vp = provider that signs / verifies; load_p = provider active while keys are loaded */
static void rot_history(const char *prefix, const rot_family_t *f, const int *seq, int sp, int vp, int load_p, int free_p, int privchk)
{
	unsigned char oct[2][32];
	vk_oct_bytes(201, oct[0], 32);
	vk_oct_bytes(202, oct[1], 32);
	char key[160];
	vf_alloc_recycle(1);
	for (int r = 0; seq[r] >= 0; r++) {
		int w = seq[r];
		char *sj = f->key[0] ? vk_jwk_text(vk_get(f->key[w]), 1, NULL, NULL) : vk_oct_jwk(oct[w], 32, NULL, NULL);
		char *pj = f->key[0] ? vk_jwk_text(vk_get(f->key[w]), 0, NULL, NULL) : vk_oct_jwk(oct[w], 32, NULL, NULL);
		jwt_set_crypto_ops(lj_provider_name(load_p));
		jwk_set_t *ss = jwks_create(sj), *ps = jwks_create(pj);
		free(sj);
		free(pj);
		const jwk_item_t *si = ss ? jwks_item_get(ss, 0) : NULL, *pi = ps ? jwks_item_get(ps, 0) : NULL;
		if (!si || !pi || jwks_item_error(si) || jwks_item_error(pi)) {
			snprintf(key, sizeof key, "%s|rotation|key-does-not-load", prefix);
			vf_violation(key, "%s round %d: key %d does not load", f->name, r, w);
			jwks_free(ss);
			jwks_free(ps);
			break;
		}
		rot_rounds++;
		/* sign */
		jwt_set_crypto_ops(lj_provider_name(sp));
		jwt_builder_t *b = jwt_builder_new();
		jwt_value_t v;
		jwt_builder_setkey(b, f->alg, si);
		jwt_set_SET_INT(&v, "round", r);
		jwt_builder_claim_set(b, &v);
		rc_rng_reseed(7000 + r);
		char *tok = jwt_builder_generate(b);
		if (!tok) {
			snprintf(key, sizeof key, "%s|rotation|generate-fails|%s", prefix, f->name);
			vf_violation(key, "%s round %d (key %d), signing under %s: %s", f->name, r, w, lj_provider_name(sp), jwt_builder_error_msg(b));
		} else if (!rot_ref_valid(f, w, oct, tok)) {
			snprintf(key, sizeof key, "%s|rotation|token-not-signed-with-the-current-key|%s", prefix, f->name);
			vf_violation(key, "%s round %d, signing under %s: the token is not a valid signature of key %d (%s by key %d): %s", f->name, r, lj_provider_name(sp), w,
				     rot_ref_valid(f, 1 - w, oct, tok) ? "it is one" : "nor", 1 - w, tok);
		}
		/* verify */
		jwt_set_crypto_ops(lj_provider_name(vp));
		jwt_checker_t *c = jwt_checker_new();
		jwt_checker_setkey(c, f->alg, pi);
		char *mine = rot_ref_token(f, w, oct, r), *other = rot_ref_token(f, 1 - w, oct, r);
		/* the signing side checks its own token with the item it signed with (a private key verifies as well as signs); the
		 * public-key checker comes straight after it: what kind of key the previous verification held must not matter */
		jwt_checker_t *cs = jwt_checker_new();
		int r_priv = -1, r_priv_other = -1;
		if (privchk && !jwt_checker_setkey(cs, f->alg, si)) {
			r_priv = mine ? jwt_checker_verify(cs, mine) : -1;
			rot_checks++;
			if (mine && r_priv != 0) {
				snprintf(key, sizeof key, "%s|rotation|current-key-token-rejected-with-the-private-item|%s", prefix, f->name);
				vf_violation(key, "%s round %d: a reference token signed with the current key %d is rejected under %s by a checker holding the private item: %s", f->name, r, w,
					     lj_provider_name(vp), jwt_checker_error_msg(cs));
			}
			if (r % 2) {
				/* ... and on every second round the private-key checker's last call is a refusal */
				r_priv_other = other ? jwt_checker_verify(cs, other) : -1;
				rot_checks++;
				if (other && r_priv_other == 0) {
					snprintf(key, sizeof key, "%s|rotation|retired-key-token-accepted|%s", prefix, f->name);
					vf_violation(key, "%s round %d: a token signed with key %d is accepted under %s by a checker holding the private item of key %d", f->name, r, 1 - w, lj_provider_name(vp), w);
				}
			}
		}
		vf_obs(vf_hash_mix(r_priv == 0, r_priv_other == 0));
		jwt_checker_free(cs);
		int r_own = tok ? jwt_checker_verify(c, tok) : -1;
		int r_mine = mine ? jwt_checker_verify(c, mine) : -1;
		int r_other = other ? jwt_checker_verify(c, other) : -1;
		rot_checks += 3;
		vf_obs(vf_hash_mix(r_own == 0, vf_hash_mix(r_mine == 0, r_other == 0)));
		if (tok && r_own != 0) {
			snprintf(key, sizeof key, "%s|rotation|own-token-rejected|%s", prefix, f->name);
			vf_violation(key, "%s round %d (key %d): token generated under %s is rejected under %s: %s", f->name, r, w, lj_provider_name(sp), lj_provider_name(vp),
				     jwt_checker_error_msg(c));
		}
		if (mine && r_mine != 0) {
			snprintf(key, sizeof key, "%s|rotation|current-key-token-rejected|%s", prefix, f->name);
			vf_violation(key, "%s round %d: a reference token signed with the current key %d is rejected under %s", f->name, r, w, lj_provider_name(vp));
		}
		if (other && r_other == 0) {
			snprintf(key, sizeof key, "%s|rotation|retired-key-token-accepted|%s", prefix, f->name);
			vf_violation(key, "%s round %d: a token signed with key %d is accepted under %s by a checker holding key %d", f->name, r, 1 - w, lj_provider_name(vp), w);
		}
		free(mine);
		free(other);
		vf_lfree(tok);
		/* retire everything of this round before the next one starts -- under the provider in force for that (whatever a
		 * provider layer remembers about a key must go when the key goes, whichever provider is current at that moment) */
		jwt_set_crypto_ops(lj_provider_name(free_p));
		jwt_checker_free(c);
		jwt_builder_free(b);
		jwks_free(ps);
		jwks_free(ss);
	}
	vf_alloc_recycle(0);
	jwt_set_crypto_ops("openssl");
}

/* every family x sequence x (sign, verify, load, free) provider quadruple, without and with the private-item checker */
static void rot_enumerate(const char *prefix)
{
	for (int fi = 0; fi < ROT_NFAM; fi++)
		for (int si = 0; si < ROT_NSEQ; si++)
			for (int pv = 0; pv < 32; pv++) {
				if (!vf_case("key rotation %s, key sequence %d, sign under %s, verify under %s, keys loaded under %s and freed under %s%s", ROT_FAM[fi].name, si,
					     lj_provider_name(pv & 1), lj_provider_name((pv >> 1) & 1), lj_provider_name((pv >> 2) & 1), lj_provider_name((pv >> 3) & 1),
					     pv & 16 ? ", each round's token first checked with the private item" : ""))
					continue;
				rot_history(prefix, &ROT_FAM[fi], ROT_SEQ[si], pv & 1, (pv >> 1) & 1, (pv >> 2) & 1, (pv >> 3) & 1, pv >> 4);
				vf_nontrivial_case();
			}
	vf_count("rotation_rounds", rot_rounds);
	vf_count("rotation_verifications", rot_checks);
	vf_count("=addresses_reused", vf_alloc_reused());
}
#endif
