#define _GNU_SOURCE
#include "vf.h"
#include <stdarg.h>
#include <errno.h>
#include <fcntl.h>
#include <signal.h>
#include <unistd.h>
#include <sys/mman.h>
#include <sys/wait.h>
#include <sys/stat.h>
#include <jwt.h>

/* ------------------------------------------------------------------ clock */
time_t vf_now = 1700000000;
void (*vf_time_hook)(void);
time_t time(time_t *t)
{
	if (vf_time_hook)
		vf_time_hook();
	if (t)
		*t = vf_now;
	return vf_now;
}

static double real_now(void)
{
	struct timespec ts;
	clock_gettime(CLOCK_REALTIME, &ts);
	return ts.tv_sec + ts.tv_nsec / 1e9;
}

/* ------------------------------------------------------------------ state */
int vf_thorough;
const char *vf_prop = "";
int vf_replaying;
long vf_param;

#define SETCAP (1u << 22)
#define MAXCTR 96
#define MAXSAMP 24
#define MAXNOTE 16

struct hset {
	uint64_t n;
	int saturated;
	uint64_t slot[SETCAP];
};

struct vf_shared {
	volatile long inflight;
	char desc[2048];
	long executed;
	long total_cases;
	int done;
	int deadline_hit;
	long deadline_idx;
	long nviol;
	struct {
		char name[56];
		long v;
	} ctr[MAXCTR];
	int nsamp;
	struct {
		long idx;
		uint64_t outcome;
		char desc[600];
	} samp[MAXSAMP];
	int nnote;
	char note[MAXNOTE][400];
	struct hset outcomes, nontriv;
};

static struct vf_shared *S;
static int shard_i, shard_n = 1;
static long start_idx, replay_idx = -1;
static int hist_i, hist_n;   /* --replay-history I/N: run the earlier cases of that shard first (a failure that depends on what an earlier case left behind) */
static long cur_idx = -1;       /* index of last vf_case() call */
static int cur_exec;            /* is the current case being executed here */
static uint64_t cur_outcome;
static char cur_desc[2048];
static const char *out_path;
static int out_fd = 1;
static double deadline;
static int case_timeout = 60;
static int listing;

/* ------------------------------------------------------------------ hash */
uint64_t vf_hash(const void *p, size_t n)
{
	const unsigned char *s = p;
	uint64_t h = 1469598103934665603ULL;
	for (size_t i = 0; i < n; i++) {
		h ^= s[i];
		h *= 1099511628211ULL;
	}
	h ^= h >> 30; h *= 0xbf58476d1ce4e5b9ULL;
	h ^= h >> 27; h *= 0x94d049bb133111ebULL;
	h ^= h >> 31;
	return h;
}
uint64_t vf_hash_str(const char *s) { return s ? vf_hash(s, strlen(s)) : 0x9e3779b97f4a7c15ULL; }
uint64_t vf_hash_mix(uint64_t a, uint64_t b)
{
	uint64_t x[2] = { a, b };
	return vf_hash(x, sizeof x);
}

static void hset_add(struct hset *h, uint64_t v)
{
	if (v == 0)
		v = 1;
	uint64_t i = v & (SETCAP - 1);
	for (;;) {
		if (h->slot[i] == v)
			return;
		if (h->slot[i] == 0) {
			if (h->n >= SETCAP / 2) {
				h->saturated = 1;
				return;
			}
			h->slot[i] = v;
			h->n++;
			return;
		}
		i = (i + 1) & (SETCAP - 1);
	}
}

/* ------------------------------------------------------------------ output */
static void out_line(const char *s)
{
	size_t n = strlen(s);
	ssize_t r = write(out_fd, s, n);
	(void)r;
}

#define RING 8
static char ringbuf[RING][8192];
static int ringpos;
static char *ring(void) { ringpos = (ringpos + 1) % RING; return ringbuf[ringpos]; }

char *vf_escn(const char *s, size_t n)
{
	char *b = ring();
	size_t o = 0;
	for (size_t i = 0; i < n && o < sizeof(ringbuf[0]) - 8; i++) {
		unsigned char c = s[i];
		if (c == '"' || c == '\\') {
			b[o++] = '\\'; b[o++] = c;
		} else if (c < 0x20 || c >= 0x7f) {
			o += sprintf(b + o, "\\u%04x", c);
		} else
			b[o++] = c;
	}
	b[o] = 0;
	return b;
}
char *vf_esc(const char *s) { return s ? vf_escn(s, strlen(s)) : vf_escn("(null)", 6); }

char *vf_hex(const void *p, size_t n)
{
	char *b = ring();
	const unsigned char *s = p;
	size_t o = 0;
	for (size_t i = 0; i < n && o < sizeof(ringbuf[0]) - 4; i++)
		o += sprintf(b + o, "%02x", s[i]);
	b[o] = 0;
	return b;
}

const char *vf_dir(void)
{
	const char *d = getenv("VERIF_DIR");
	return d ? d : "/verif";
}

char *vf_readfile(const char *path, size_t *len)
{
	FILE *f = fopen(path, "rb");
	if (!f)
		return NULL;
	fseek(f, 0, SEEK_END);
	long n = ftell(f);
	rewind(f);
	char *b = malloc(n + 1);
	if (fread(b, 1, n, f) != (size_t)n) {
		fclose(f); free(b); return NULL;
	}
	b[n] = 0;
	fclose(f);
	if (len)
		*len = n;
	return b;
}

/* ------------------------------------------------------------------ cases */
static void finalize_case(void)
{
	if (!cur_exec)
		return;
	cur_exec = 0;
	alarm(0);
	hset_add(&S->outcomes, cur_outcome);
	S->executed++;
	int take = 0;
	if (S->nsamp < 3)
		take = 1;
	else if (S->nsamp < MAXSAMP && (cur_idx % 997) == 13)
		take = 1;
	if (take) {
		int k = S->nsamp++;
		S->samp[k].idx = cur_idx;
		S->samp[k].outcome = cur_outcome;
		snprintf(S->samp[k].desc, sizeof S->samp[k].desc, "%s", cur_desc);
	}
	if (vf_replaying && cur_idx == replay_idx) {
		char buf[4096];
		snprintf(buf, sizeof buf, "{\"type\":\"replayed\",\"idx\":%ld,\"desc\":\"%s\",\"outcome\":\"%016llx\"}\n",
			 cur_idx, vf_esc(cur_desc), (unsigned long long)cur_outcome);
		out_line(buf);
	}
	S->inflight = -1;
}

long vf_case_index(void) { return cur_idx; }

int vf_case(const char *fmt, ...)
{
	finalize_case();
	cur_idx++;
	if (listing) {
		va_list lap;
		va_start(lap, fmt);
		printf("%ld\t", cur_idx);
		vprintf(fmt, lap);
		printf("\n");
		va_end(lap);
		return 0;
	}
	if (vf_replaying) {
		if (cur_idx > replay_idx) {
			S->done = 1;
			fflush(NULL);
			_exit(0);
		}
		if (cur_idx != replay_idx && !(hist_n > 0 && cur_idx % hist_n == hist_i))
			return 0;
	} else {
		if (cur_idx < start_idx || (cur_idx % shard_n) != shard_i)
			return 0;
		if (deadline > 0 && (S->executed & 63) == 0 && real_now() > deadline) {
			S->deadline_hit = 1;
			S->deadline_idx = cur_idx;
			S->done = 1;
			fflush(NULL);
			_exit(0);
		}
	}
	va_list ap;
	va_start(ap, fmt);
	vsnprintf(cur_desc, sizeof cur_desc, fmt, ap);
	va_end(ap);
	memcpy(S->desc, cur_desc, sizeof S->desc);
	S->inflight = cur_idx;
	cur_exec = 1;
	cur_outcome = 0xcbf29ce484222325ULL;
	alarm(case_timeout);
	return 1;
}

void vf_obs(uint64_t h) { cur_outcome = vf_hash_mix(cur_outcome, h); }
void vf_obs_str(const char *s) { vf_obs(vf_hash_str(s)); }
void vf_nontrivial(uint64_t h) { hset_add(&S->nontriv, h); }
void vf_nontrivial_case(void) { hset_add(&S->nontriv, vf_hash_str(cur_desc)); }

void vf_count(const char *name, long n)
{
	for (int i = 0; i < MAXCTR; i++) {
		if (S->ctr[i].name[0] == 0) {
			snprintf(S->ctr[i].name, sizeof S->ctr[i].name, "%s", name);
			S->ctr[i].v = n;
			return;
		}
		if (!strcmp(S->ctr[i].name, name)) {
			S->ctr[i].v += n;
			return;
		}
	}
}

void vf_note(const char *fmt, ...)
{
	if (S->nnote >= MAXNOTE)
		return;
	va_list ap;
	va_start(ap, fmt);
	vsnprintf(S->note[S->nnote++], sizeof S->note[0], fmt, ap);
	va_end(ap);
}

void vf_violation(const char *key, const char *fmt, ...)
{
	char detail[3000], buf[8192];
	va_list ap;
	va_start(ap, fmt);
	vsnprintf(detail, sizeof detail, fmt, ap);
	va_end(ap);
	if (vf_replaying && cur_idx != replay_idx)
		return;   /* history replay: the earlier cases only set the scene */
	S->nviol++;
	/* cap the number of lines per finding key and shard; the total count stays exact */
	{
		static struct { uint64_t h; int n; } seen[512];
		uint64_t h = vf_hash_str(key) | 1;
		int i;
		for (i = 0; i < 512 && seen[i].h && seen[i].h != h; i++)
			;
		if (i == 512)
			return;
		seen[i].h = h;
		if (++seen[i].n > 12)
			return;
	}
	char kesc[512];
	snprintf(kesc, sizeof kesc, "%s", vf_esc(key));
	char desc_esc[4200];
	snprintf(desc_esc, sizeof desc_esc, "%s", vf_esc(cur_desc));
	snprintf(buf, sizeof buf,
		 "{\"type\":\"violation\",\"idx\":%ld,\"key\":\"%s\",\"desc\":\"%s\",\"detail\":\"%s\"}\n",
		 cur_idx, kesc, desc_esc, vf_esc(detail));
	out_line(buf);
}

/* ------------------------------------------------------------------ allocator */
static long a_live, a_total, a_fail_at, a_failed;
void (*vf_alloc_hook)(int is_free);

/* guard mode: every block ends (up to 7 bytes of alignment slack) right before an inaccessible page, so that
 * over-reads and over-writes by code the sanitizers do not instrument (libgnutls, libcrypto, libjansson) fault too */
static int a_guard;
#define GUARD_MAGIC 0x6775617264ULL
struct ghdr {
	uint64_t magic;
	size_t maplen;
};
static void *guard_alloc(size_t n)
{
	size_t pg = 4096, need = (n + 7) & ~(size_t)7;
	size_t maplen = ((need + sizeof(struct ghdr) + pg - 1) / pg) * pg + pg;
	char *m = mmap(NULL, maplen, PROT_READ | PROT_WRITE, MAP_PRIVATE | MAP_ANONYMOUS, -1, 0);
	if (m == MAP_FAILED)
		return NULL;
	mprotect(m + maplen - pg, pg, PROT_NONE);
	char *user = m + maplen - pg - need;
	struct ghdr *h = (struct ghdr *)m;
	h->magic = GUARD_MAGIC;
	h->maplen = maplen;
	return user;
}
static int guard_free(void *p)
{
	char *m = (char *)((uintptr_t)p & ~(uintptr_t)4095);
	/* the header sits at the start of the mapping: walk back page by page (blocks are rarely larger than a few pages) */
	for (int i = 0; i < 64; i++, m -= 4096) {
		struct ghdr *h = (struct ghdr *)m;
		if (h->magic == GUARD_MAGIC && m + h->maplen > (char *)p) {
			munmap(m, h->maplen);
			return 1;
		}
		if ((char *)p - m > (64 << 12))
			break;
	}
	return 0;
}
void vf_alloc_guard(int on) { a_guard = on; }

/* recycle mode: a freed block is handed out again by the very next request of the same size (LIFO per size), the way a
 * plain malloc behaves -- ASan's quarantine would otherwise keep a freed address out of circulation and hide anything
 * that depends on an address being reused (a cache keyed on a pointer that outlives the object).  Parked blocks are
 * poisoned, so a use after free is still reported. */
#if defined(__has_feature)
#if __has_feature(address_sanitizer)
#define VF_ASAN 1
#endif
#endif
#ifdef __SANITIZE_ADDRESS__
#define VF_ASAN 1
#endif
#ifdef VF_ASAN
void __asan_poison_memory_region(void const volatile *addr, size_t size);
void __asan_unpoison_memory_region(void const volatile *addr, size_t size);
#define POISON(p, n) __asan_poison_memory_region(p, n)
#define UNPOISON(p, n) __asan_unpoison_memory_region(p, n)
#else
#define POISON(p, n) ((void)0)
#define UNPOISON(p, n) ((void)0)
#endif
#define RC_MAXSZ 8192
#define RC_TAB (1 << 16)
static int a_recycle;
/* track mode: every block the allocator hands out is remembered, and a pointer given to the free function that was never
 * handed out (a block that belongs to libcrypto, GnuTLS or libc: with a pool or arena behind jwt_set_alloc that is heap
 * corruption) is reported.  The table has room for 32 k live blocks; if it ever fills, tracking switches itself off. */
static int a_track, a_track_overflow;
static long a_foreign;
static struct { void *p; size_t n; } rc_tab[RC_TAB];   /* live blocks handed out in recycle mode (open addressing) */
static long rc_tab_used, rc_tombs;
static struct { void **v; int n, cap; } rc_bucket[RC_MAXSZ + 1];
static long rc_reused;
static unsigned rc_slot(void *p) { return (unsigned)(((uintptr_t)p >> 4) * 2654435761u) & (RC_TAB - 1); }
static void rc_tab_add(void *p, size_t n)
{
	if (rc_tab_used > RC_TAB / 2) {
		a_track_overflow = 1;
		return;   /* table full: the block is simply not recycled later */
	}
	unsigned i = rc_slot(p);
	while (rc_tab[i].p && rc_tab[i].p != (void *)-1)
		i = (i + 1) & (RC_TAB - 1);
	if (rc_tab[i].p)
		rc_tombs--;
	rc_tab[i].p = p;
	rc_tab[i].n = n;
	rc_tab_used++;
}
static void rc_tab_rehash(void)
{
	static struct { void *p; size_t n; } tmp[RC_TAB / 2 + 1];
	long k = 0;
	for (unsigned i = 0; i < RC_TAB; i++)
		if (rc_tab[i].p && rc_tab[i].p != (void *)-1) {
			tmp[k].p = rc_tab[i].p;
			tmp[k++].n = rc_tab[i].n;
		}
	memset(rc_tab, 0, sizeof rc_tab);
	rc_tab_used = 0;
	rc_tombs = 0;
	for (long j = 0; j < k; j++)
		rc_tab_add(tmp[j].p, tmp[j].n);
}
static size_t rc_tab_take(void *p)
{
	unsigned i = rc_slot(p);
	while (rc_tab[i].p) {
		if (rc_tab[i].p == p) {
			size_t n = rc_tab[i].n;
			rc_tab[i].p = (void *)-1;
			rc_tab_used--;
			if (++rc_tombs > RC_TAB / 4)
				rc_tab_rehash();
			return n;
		}
		i = (i + 1) & (RC_TAB - 1);
	}
	return 0;
}
void vf_alloc_recycle(int on)
{
	a_recycle = on;
	if (on)
		return;
	for (int s = 0; s <= RC_MAXSZ; s++) {
		for (int k = 0; k < rc_bucket[s].n; k++) {
			UNPOISON(rc_bucket[s].v[k], s);
			free(rc_bucket[s].v[k]);
		}
		free(rc_bucket[s].v);
		rc_bucket[s].v = NULL;
		rc_bucket[s].n = rc_bucket[s].cap = 0;
	}
	if (rc_tab_used == 0)
		return;
	/* blocks still live keep their entries until they are freed */
}
long vf_alloc_reused(void) { return rc_reused; }
void vf_alloc_track(int on) { a_track = on; }
long vf_alloc_foreign(void) { return a_foreign; }

static void *vf_malloc(size_t n)
{
	if (vf_alloc_hook)
		vf_alloc_hook(0);
	a_total++;
	if (a_fail_at && a_total == a_fail_at) {
		a_failed++;
		return NULL;
	}
	if (!n)
		n = 1;
	void *p;
	if (a_recycle && !a_guard && n <= RC_MAXSZ) {
		if (rc_bucket[n].n > 0) {
			p = rc_bucket[n].v[--rc_bucket[n].n];
			UNPOISON(p, n);
			rc_reused++;
		} else
			p = malloc(n);
		if (p)
			rc_tab_add(p, n);
	} else {
		p = a_guard ? guard_alloc(n) : malloc(n);
		if (p && a_track && !a_guard)
			rc_tab_add(p, n);
	}
	if (p)
		a_live++;
	return p;
}
static void vf_free(void *p)
{
	if (vf_alloc_hook)
		vf_alloc_hook(1);
	if (p)
		a_live--;
	if (p && a_guard && guard_free(p))
		return;
	if (p && (rc_tab_used > 0 || a_track)) {
		size_t n = rc_tab_take(p);
		if (!n && a_track && !a_track_overflow && !a_guard) {
			/* not ours: report (the first few), do not count it as one of our blocks going away */
			a_live++;
			if (a_foreign++ < 3)
				vf_violation("allocator|foreign-free", "the free function installed with jwt_set_alloc was handed %p, a block the matching allocation function never returned", p);
		}
		if (n) {
			if (a_recycle) {
				if (rc_bucket[n].n == rc_bucket[n].cap) {
					rc_bucket[n].cap = rc_bucket[n].cap ? rc_bucket[n].cap * 2 : 8;
					rc_bucket[n].v = realloc(rc_bucket[n].v, sizeof(void *) * rc_bucket[n].cap);
				}
				rc_bucket[n].v[rc_bucket[n].n++] = p;
				POISON(p, n);
				return;
			}
		}
	}
	free(p);
}
void vf_alloc_install(void) { jwt_set_alloc(vf_malloc, vf_free); }
void vf_lfree(void *p) { vf_free(p); }
long vf_alloc_live(void) { return a_live; }
long vf_alloc_total(void) { return a_total; }
void vf_alloc_reset_counter(void) { a_total = 0; a_failed = 0; a_fail_at = 0; }
void vf_alloc_fail_at(long k) { a_fail_at = k ? a_total + k : 0; }
long vf_alloc_failed(void) { return a_failed; }

/* Every block of the process heap, whoever asked for it (the library through jwt_set_alloc, jansson, libcrypto, GnuTLS,
 * nettle, gmp): counted by the sanitizer run-time's allocation hooks.  -1 where there is no such run-time (plain build). */
extern int __sanitizer_install_malloc_and_free_hooks(void (*malloc_hook)(const volatile void *, size_t),
						     void (*free_hook)(const volatile void *)) __attribute__((weak));
static long heap_live;
static int heap_hooked;
static void heap_malloc_hook(const volatile void *p, size_t n) { (void)n; if (p) __atomic_add_fetch(&heap_live, 1, __ATOMIC_RELAXED); }
static void heap_free_hook(const volatile void *p) { if (p) __atomic_sub_fetch(&heap_live, 1, __ATOMIC_RELAXED); }
long vf_heap_live(void)
{
	if (!heap_hooked) {
		heap_hooked = -1;
		if (__sanitizer_install_malloc_and_free_hooks && __sanitizer_install_malloc_and_free_hooks(heap_malloc_hook, heap_free_hook) > 0)
			heap_hooked = 1;
	}
	return heap_hooked > 0 ? __atomic_load_n(&heap_live, __ATOMIC_RELAXED) : -1;
}

extern int __lsan_do_recoverable_leak_check(void) __attribute__((weak));
int vf_lsan_check(void)
{
	if (__lsan_do_recoverable_leak_check)
		return __lsan_do_recoverable_leak_check();
	return 0;
}

/* ------------------------------------------------------------------ merge tool */
static int cmp_u64(const void *a, const void *b)
{
	uint64_t x = *(const uint64_t *)a, y = *(const uint64_t *)b;
	return x < y ? -1 : x > y;
}

/* count distinct 64-bit values over the per-shard dumps (sort-based: memory proportional to the input) */
static int merge_count(int n, char **files)
{
	size_t cap = 1 << 20, cnt = 0;
	uint64_t *a = malloc(cap * sizeof *a);
	for (int i = 0; i < n; i++) {
		FILE *f = fopen(files[i], "rb");
		if (!f)
			continue;
		uint64_t v;
		while (fread(&v, sizeof v, 1, f) == 1) {
			if (cnt == cap) {
				cap *= 2;
				a = realloc(a, cap * sizeof *a);
			}
			a[cnt++] = v;
		}
		fclose(f);
	}
	qsort(a, cnt, sizeof *a, cmp_u64);
	size_t distinct = 0;
	for (size_t i = 0; i < cnt; i++)
		if (i == 0 || a[i] != a[i - 1])
			distinct++;
	printf("%zu 0\n", distinct);
	free(a);
	return 0;
}

static void dump_set(const char *path, struct hset *h)
{
	FILE *f = fopen(path, "wb");
	if (!f)
		return;
	for (uint64_t i = 0; i < SETCAP; i++)
		if (h->slot[i])
			fwrite(&h->slot[i], sizeof(uint64_t), 1, f);
	fclose(f);
}

/* ------------------------------------------------------------------ main */
static void write_summary(int crashes)
{
	char *buf = malloc(1 << 16);
	size_t o = 0;
	o += sprintf(buf + o, "{\"type\":\"summary\",\"shard\":%d,\"nshards\":%d,\"cases_total\":%ld,\"executed\":%ld,"
		     "\"crashes\":%d,\"deadline_hit\":%d,\"deadline_idx\":%ld,\"violations\":%ld,"
		     "\"outcomes_local\":%llu,\"nontrivial_local\":%llu,\"saturated\":%d,\"counters\":{",
		     shard_i, shard_n, S->total_cases, S->executed, crashes, S->deadline_hit, S->deadline_idx, S->nviol,
		     (unsigned long long)S->outcomes.n, (unsigned long long)S->nontriv.n,
		     S->outcomes.saturated | S->nontriv.saturated);
	int first = 1;
	for (int i = 0; i < MAXCTR && S->ctr[i].name[0]; i++) {
		o += sprintf(buf + o, "%s\"%s\":%ld", first ? "" : ",", vf_esc(S->ctr[i].name), S->ctr[i].v);
		first = 0;
	}
	o += sprintf(buf + o, "},\"samples\":[");
	for (int i = 0; i < S->nsamp; i++)
		o += sprintf(buf + o, "%s{\"idx\":%ld,\"outcome\":\"%016llx\",\"desc\":\"%s\"}", i ? "," : "",
			     S->samp[i].idx, (unsigned long long)S->samp[i].outcome, vf_esc(S->samp[i].desc));
	o += sprintf(buf + o, "],\"notes\":[");
	for (int i = 0; i < S->nnote; i++)
		o += sprintf(buf + o, "%s\"%s\"", i ? "," : "", vf_esc(S->note[i]));
	o += sprintf(buf + o, "]}\n");
	out_line(buf);
	free(buf);
}

int vf_main(int argc, char **argv, void (*enumerate)(void))
{
	int replay = 0;
	for (int i = 1; i < argc; i++) {
		if (!strcmp(argv[i], "--tier") && i + 1 < argc)
			vf_thorough = !strcmp(argv[++i], "thorough");
		else if (!strcmp(argv[i], "--prop") && i + 1 < argc)
			vf_prop = argv[++i];
		else if (!strcmp(argv[i], "--shard") && i + 1 < argc)
			sscanf(argv[++i], "%d/%d", &shard_i, &shard_n);
		else if (!strcmp(argv[i], "--out") && i + 1 < argc)
			out_path = argv[++i];
		else if (!strcmp(argv[i], "--replay") && i + 1 < argc) {
			replay_idx = atol(argv[++i]);
			replay = 1;
		} else if (!strcmp(argv[i], "--replay-history") && i + 1 < argc)
			sscanf(argv[++i], "%d/%d", &hist_i, &hist_n);
		else if (!strcmp(argv[i], "--deadline") && i + 1 < argc)
			deadline = atof(argv[++i]);
		else if (!strcmp(argv[i], "--param") && i + 1 < argc)
			vf_param = atol(argv[++i]);
		else if (!strcmp(argv[i], "--case-timeout") && i + 1 < argc)
			case_timeout = atoi(argv[++i]);
		else if (!strcmp(argv[i], "--list"))
			listing = 1;
		else if (!strcmp(argv[i], "--merge-count"))
			return merge_count(argc - i - 1, argv + i + 1);
		else {
			fprintf(stderr, "vf: unknown argument %s\n", argv[i]);
			return 2;
		}
	}
	if (out_path) {
		out_fd = open(out_path, O_WRONLY | O_CREAT | O_APPEND, 0644);
		if (out_fd < 0) {
			perror(out_path);
			return 2;
		}
	}
	S = mmap(NULL, sizeof *S, PROT_READ | PROT_WRITE, MAP_SHARED | MAP_ANONYMOUS, -1, 0);
	if (S == MAP_FAILED) {
		perror("mmap");
		return 2;
	}
	S->inflight = -1;

	if (listing) {
		enumerate();
		return 0;
	}
	if (replay) {
		vf_replaying = 1;
		enumerate();
		finalize_case();
		return 0;
	}

	int crashes = 0, seq = 0;
	start_idx = 0;
	for (;;) {
		char errfile[1024] = "";
		if (out_path)
			snprintf(errfile, sizeof errfile, "%s.err.%d", out_path, seq);
		fflush(NULL);
		pid_t pid = fork();
		if (pid < 0) {
			perror("fork");
			return 2;
		}
		if (pid == 0) {
			if (errfile[0]) {
				int fd = open(errfile, O_WRONLY | O_CREAT | O_TRUNC, 0644);
				if (fd >= 0) {
					dup2(fd, 2);
					close(fd);
				}
			}
			enumerate();
			finalize_case();
			S->total_cases = cur_idx + 1;
			S->done = 1;
			fflush(NULL);
			_exit(0);
		}
		int st = 0;
		while (waitpid(pid, &st, 0) < 0 && errno == EINTR)
			;
		int ok = WIFEXITED(st) && WEXITSTATUS(st) == 0;
		if (ok && S->done) {
			if (errfile[0]) {
				struct stat sb;
				if (stat(errfile, &sb) == 0 && sb.st_size == 0)
					unlink(errfile);
			}
			break;
		}
		/* abnormal end */
		crashes++;
		seq++;
		char buf[8192];
		long at = S->inflight;
		const char *kind = "crash";
		char how[128];
		if (WIFSIGNALED(st)) {
			if (WTERMSIG(st) == SIGALRM)
				kind = "timeout";
			snprintf(how, sizeof how, "signal %d", WTERMSIG(st));
		} else
			snprintf(how, sizeof how, "exit status %d", WEXITSTATUS(st));
		char desc_esc[4200];
		snprintf(desc_esc, sizeof desc_esc, "%s", at >= 0 ? vf_esc(S->desc) : "(outside any case)");
		snprintf(buf, sizeof buf,
			 "{\"type\":\"violation\",\"idx\":%ld,\"key\":\"%s\",\"desc\":\"%s\",\"detail\":\"%s\",\"errfile\":\"%s\"}\n",
			 at, kind, desc_esc, how, vf_esc(errfile));
		out_line(buf);
		S->nviol++;
		if (at < 0 || S->done || crashes > 300) {
			/* crash outside a case (setup/teardown) or too many: give up on this shard */
			char b2[256];
			snprintf(b2, sizeof b2, "{\"type\":\"fatal\",\"shard\":%d,\"why\":\"%s\"}\n", shard_i,
				 at < 0 ? "crash outside any case" : (S->done ? "crash after completion" : "too many crashes"));
			out_line(b2);
			break;
		}
		S->executed++;
		start_idx = at + 1;
		S->inflight = -1;
	}
	if (out_path) {
		char p[1100];
		snprintf(p, sizeof p, "%s.oc.bin", out_path);
		dump_set(p, &S->outcomes);
		snprintf(p, sizeof p, "%s.nt.bin", out_path);
		dump_set(p, &S->nontriv);
	}
	write_summary(crashes);
	return 0;
}
