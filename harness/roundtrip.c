/* C05 -- generate => verify, same content: key/alg x provider pairs x bounded-exhaustive JSON tree family,
 *        ECDSA r/s length classes with the RNG owned by the harness.
 * C10 -- generated tokens say what the builder was told: BFS over builder histories, ref_builder model. */
#define OPENSSL_SUPPRESS_DEPRECATED 1
#include "vf.h"
#include "keys.h"
#include "tok.h"
#include "rotate.h"

static const time_t T0 = 1700000000;

/* ================================================================== JSON tree family */
static json_t *TREES[8192];
static int NTREES, first_nul_tree, last_nul_tree;
static long n_refused_nul;

static json_t *leaf(int i)
{
	switch (i) {
	case 0: return json_integer(0);
	case 1: return json_integer(-1);
	case 2: return json_integer(9007199254740993LL);
	case 3: return json_integer(9223372036854775807LL);
	case 4: return json_real(1.5);
	case 5: return json_real(1e308);
	case 6: return json_string("");
	case 7: return json_string("\xc3\xa9");
	case 8: return json_string("\xf0\x9f\x94\x91");
	case 9: return json_true();
	case 10: return json_null();
	case 11: return json_array();
	case 12: return json_object();
	case 13: return json_string("a\"b\\c/\n\t\x7f");
	case 14: return json_false();
	case 15: return json_integer(-9223372036854775807LL - 1);
	case 16: return json_real(-0.0);
	case 17: return json_real(0.30000000000000004);
	case 18: return json_real(3.141592653589793);
	case 19: return json_real(1.7976931348623157e308);
	case 20: return json_real(5e-324);
	case 21: return json_real(0.1);
	case 22: return json_real(123456789.12345679);
	default: return NULL;
	}
}
#define NLEAF 23

static void build_trees(void)
{
	/* depth 0 */
	for (int i = 0; i < NLEAF; i++)
		TREES[NTREES++] = leaf(i);
	int d0 = NTREES;
	/* depth 1: arrays and objects of width 1 and 2 over the leaves */
	for (int i = 0; i < d0; i++) {
		TREES[NTREES++] = json_pack("[O]", TREES[i]);
		TREES[NTREES++] = json_pack("{sO}", "a", TREES[i]);
		for (int j = 0; j < d0; j++) {
			TREES[NTREES++] = json_pack("[OO]", TREES[i], TREES[j]);
			TREES[NTREES++] = json_pack("{sOsO}", "a", TREES[i], "b", TREES[j]);
		}
	}
	int d1 = NTREES;
	/* depth 2: containers holding depth-1 containers (every 3rd of them) */
	for (int i = d0; i < d1; i += 3) {
		TREES[NTREES++] = json_pack("[O]", TREES[i]);
		TREES[NTREES++] = json_pack("{sO}", "k\xc3\xa9y", TREES[i]);
		TREES[NTREES++] = json_pack("[OO]", TREES[i], TREES[(i * 7) % d0]);
		TREES[NTREES++] = json_pack("{sOsO}", "a", TREES[(i * 5) % d0], "zz", TREES[i]);
	}
	/* strings with an embedded NUL (as \u0000 in the JSON text): the builder may refuse them, but whatever it signs must verify */
	first_nul_tree = NTREES;
	TREES[NTREES++] = json_stringn("a\0b", 3);
	TREES[NTREES++] = json_pack("[o]", json_stringn("\0", 1));
	TREES[NTREES++] = json_pack("{so}", "a", json_stringn("x\0", 2));
	TREES[NTREES++] = json_pack("{s{so}}", "n", "deep", json_stringn("\0y", 2));
	last_nul_tree = NTREES - 1;
	/* long strings */
	char *big = malloc(70000);
	memset(big, 'L', 65536);
	big[65536] = 0;
	TREES[NTREES++] = json_string(big);
	TREES[NTREES++] = json_pack("{ss}", "big", big);
	big[4097] = 0;
	TREES[NTREES++] = json_string(big);
	free(big);
}

/* ================================================================== pairs */
typedef struct {
	const char *keyname;
	jwt_alg_t alg;
	int openssl_only;
} rpair_t;
static const rpair_t RP[] = {
	{ "oct32", JWT_ALG_HS256, 0 }, { "oct48", JWT_ALG_HS384, 0 }, { "oct64", JWT_ALG_HS512, 0 }, { "oct200", JWT_ALG_HS256, 0 },
	{ "rsa2048a", JWT_ALG_RS256, 0 }, { "rsa2048a", JWT_ALG_RS384, 0 }, { "rsa2048a", JWT_ALG_RS512, 0 },
	{ "rsa2048a", JWT_ALG_PS256, 0 }, { "rsa2048a", JWT_ALG_PS384, 0 }, { "rsa2048a", JWT_ALG_PS512, 0 },
	{ "rsapss2048", JWT_ALG_PS256, 0 }, { "rsapss2048", JWT_ALG_PS512, 0 }, { "rsa2056", JWT_ALG_RS256, 0 }, { "rsa3072", JWT_ALG_PS384, 0 },
	{ "rsa4096", JWT_ALG_RS512, 0 }, { "rsa2048e3", JWT_ALG_RS256, 0 }, { "rsa2048e33", JWT_ALG_PS256, 0 },
	{ "p256a", JWT_ALG_ES256, 0 }, { "p256_x0", JWT_ALG_ES256, 0 }, { "p256_d0", JWT_ALG_ES256, 0 }, { "p384", JWT_ALG_ES384, 0 }, { "p384_y0", JWT_ALG_ES384, 0 },
	{ "p521", JWT_ALG_ES512, 0 }, { "p521_d0", JWT_ALG_ES512, 0 }, { "k256", JWT_ALG_ES256K, 1 }, { "k256_x0", JWT_ALG_ES256, 1 },
	{ "ed25519a", JWT_ALG_EDDSA, 0 }, { "ed25519b", JWT_ALG_EDDSA, 0 }, { "ed448", JWT_ALG_EDDSA, 0 },
	{ "rsa2050", JWT_ALG_RS256, 0 }, { "rsa2050", JWT_ALG_PS512, 0 }, { "rsa3002", JWT_ALG_PS256, 0 },
};
#define NRP ((int)(sizeof RP / sizeof *RP))

typedef struct {
	jwk_set_t *priv, *pub;
	vk_t *vk;
	unsigned char oct[256];
	size_t octlen;
} rkey_t;
static rkey_t RK[64];

static void load_pair(int i)
{
	const rpair_t *p = &RP[i];
	rkey_t *k = &RK[i];
	char *a, *b;
	if (k->priv)
		return;
	if (!strncmp(p->keyname, "oct", 3)) {
		k->octlen = atoi(p->keyname + 3);
		vk_oct_bytes(60 + i, k->oct, k->octlen);
		a = vk_oct_jwk(k->oct, k->octlen, NULL, NULL);
		b = strdup(a);
	} else {
		k->vk = vk_get(p->keyname);
		const char *attr = k->vk->pss ? tok_alg_names[p->alg] : NULL;
		a = vk_jwk_text(k->vk, 1, attr, NULL);
		b = vk_jwk_text(k->vk, 0, attr, NULL);
	}
	/* what the key is for, said the way RFC 7517 provides (every fourth pair each): signer ["sign"] / checker ["verify"]; both
	 * ["sign","verify"]; "use":"sig" -- a key labelled for exactly what it is used for works like an unlabelled one */
	if (i % 4) {
		json_t *ja = json_loads(a, 0, NULL), *jb = json_loads(b, 0, NULL);
		if (i % 4 == 3) {
			json_object_set_new(ja, "use", json_string("sig"));
			json_object_set_new(jb, "use", json_string("sig"));
		} else {
			json_object_set_new(ja, "key_ops", i % 4 == 1 ? json_pack("[s]", "sign") : json_pack("[ss]", "sign", "verify"));
			json_object_set_new(jb, "key_ops", i % 4 == 1 ? json_pack("[s]", "verify") : json_pack("[ss]", "sign", "verify"));
		}
		free(a);
		free(b);
		a = tok_jdump(ja, JSON_COMPACT);
		b = tok_jdump(jb, JSON_COMPACT);
		json_decref(ja);
		json_decref(jb);
	}
	k->priv = jwks_create(a);
	k->pub = jwks_create(b);
	free(a);
	free(b);
}

/* ================================================================== C05 */
struct capture {
	char *head, *claims;
};
static int capture_cb(jwt_t *jwt, jwt_config_t *cfg)
{
	struct capture *c = cfg->ctx;
	jwt_value_t v;
	jwt_set_GET_JSON(&v, NULL);
	if (jwt_header_get(jwt, &v) == JWT_VALUE_ERR_NONE) {
		c->head = strdup(v.json_val);
		vf_lfree(v.json_val);
	}
	jwt_set_GET_JSON(&v, NULL);
	if (jwt_claim_get(jwt, &v) == JWT_VALUE_ERR_NONE) {
		c->claims = strdup(v.json_val);
		vf_lfree(v.json_val);
	}
	return 0;
}

static long n_tokens, n_verifies, n_equal;
static const char *PROV[2] = { "openssl", "gnutls" };

/* build, generate under provider sp, verify under provider vp, compare content */
static void roundtrip_one(int pi, int tree, int sp, int vp, int topt)
{
	const rpair_t *p = &RP[pi];
	rkey_t *k = &RK[pi];
	const jwk_item_t *priv = jwks_item_get(k->priv, 0), *pub = jwks_item_get(k->pub, 0);
	jwt_alg_t cfgalg = jwks_item_alg(priv) == JWT_ALG_NONE ? p->alg : JWT_ALG_NONE;
	jwt_set_crypto_ops(PROV[sp]);
	jwt_builder_t *b = jwt_builder_new();
	jwt_value_t v;
	/* every second group of eight trees uses an expiry more than 2^31 seconds away (time_t offsets are 64 bits wide) */
	int iat = topt & 1;
	long nbf = topt & 2 ? 10 : 0, exp = topt & 4 ? (topt & 8 ? 3000000000L : 300) : 0;
	/* expected documents */
	json_t *eh = json_object(), *ec = json_object();
	json_t *t = TREES[tree];
	/* claims: {"v": tree, "n": tree-index} ; when the tree is an object it is merged in as the whole claim set too */
	json_object_set(ec, "v", t);
	json_object_set_new(ec, "idx", json_integer(tree));
	if (json_is_object(t))
		json_object_update_missing(ec, t);
	json_object_set(eh, "x", t);
	json_object_set_new(eh, "kid", json_string("k\xc3\xa9y-1"));
	char *ctext = tok_jdump(ec, JSON_COMPACT), *htext = tok_jdump(eh, JSON_COMPACT);
	int ok = !jwt_builder_setkey(b, cfgalg, priv);
	jwt_set_SET_JSON(&v, NULL, ctext);
	ok &= jwt_builder_claim_set(b, &v) == JWT_VALUE_ERR_NONE;
	jwt_set_SET_JSON(&v, NULL, htext);
	ok &= jwt_builder_header_set(b, &v) == JWT_VALUE_ERR_NONE;
	/* scalar leaves additionally travel through the typed setters (INT / STR / BOOL), in claims and headers */
	if (json_is_integer(t) || json_is_string(t) || json_is_boolean(t)) {
		for (int where = 0; where < 2; where++) {
			const char *nm = where ? "th" : "tc";
			if (json_is_integer(t))
				jwt_set_SET_INT(&v, nm, (long)json_integer_value(t));
			else if (json_is_string(t))
				jwt_set_SET_STR(&v, nm, json_string_value(t));
			else
				jwt_set_SET_BOOL(&v, nm, json_is_true(t));
			int rc = where ? jwt_builder_header_set(b, &v) : jwt_builder_claim_set(b, &v);
			/* a string with an embedded NUL cannot be passed as a C string: the typed route carries its prefix */
			if (rc == JWT_VALUE_ERR_NONE)
				json_object_set_new(where ? eh : ec, nm, json_is_string(t) ? json_string(json_string_value(t)) : json_deep_copy(t));
			else
				ok = 0;
		}
	}
	jwt_builder_enable_iat(b, iat);
	jwt_builder_time_offset(b, JWT_CLAIM_NBF, nbf);
	jwt_builder_time_offset(b, JWT_CLAIM_EXP, exp);
	char *tok = ok ? jwt_builder_generate(b) : NULL;
	n_tokens++;
	if (!tok && !ok && tree >= first_nul_tree && tree <= last_nul_tree) {
		n_refused_nul++;   /* jansson refuses \u0000 by default: no token, nothing to verify */
		vf_obs(31);
		goto out;
	}
	if (!tok) {
		vf_violation("generate-fails", "%s/%s under %s: generate failed for tree %d (%s): %s", p->keyname, tok_alg_names[p->alg], PROV[sp], tree, ok ? "generate" : "configuration",
			     jwt_builder_error_msg(b));
		goto out;
	}
	json_object_set_new(eh, "alg", json_string(tok_alg_names[p->alg]));
	json_object_set_new(eh, "typ", json_string("JWT"));
	if (iat) json_object_set_new(ec, "iat", json_integer(T0));
	if (nbf) json_object_set_new(ec, "nbf", json_integer(T0 + nbf));
	if (exp) json_object_set_new(ec, "exp", json_integer(T0 + exp));
	/* the reference must agree that the signature is valid */
	{
		rt_t r;
		rt_parse(tok, &r);
		int valid;
		if (!k->vk) {
			unsigned char mac[64];
			size_t l = rc_hmac(p->alg, k->oct, k->octlen, tok, r.input_len, mac);
			valid = (long)l == r.declen[2] && !memcmp(mac, r.dec[2], l);
		} else
			valid = r.declen[2] > 0 && rc_verify(k->vk, p->alg, tok, r.input_len, r.dec[2], r.declen[2]);
		if (!valid)
			vf_violation("generated-token-invalid-by-reference", "%s/%s under %s: %.300s", p->keyname, tok_alg_names[p->alg], PROV[sp], tok);
		/* RFC 7518 widths */
		long want = rc_family(p->alg) == RC_FAM_ES ? 2 * ((k->vk->bits + 7) / 8) : rc_family(p->alg) == RC_FAM_HS ? EVP_MD_get_size(rc_md(p->alg)) :
			    rc_family(p->alg) == RC_FAM_ED ? (!strcmp(k->vk->crv, "Ed448") ? 114 : 64) : (k->vk->bits + 7) / 8;
		if (r.declen[2] != want)
			vf_violation("signature-width", "%s/%s under %s: signature has %ld bytes, RFC 7518 says %ld", p->keyname, tok_alg_names[p->alg], PROV[sp], r.declen[2], want);
		rt_free(&r);
	}
	jwt_set_crypto_ops(PROV[vp]);
	{
		jwt_checker_t *c = jwt_checker_new();
		struct capture cap = { NULL, NULL };
		jwt_checker_setkey(c, cfgalg, pub);
		jwt_checker_setcb(c, capture_cb, &cap);
		vf_now = T0 + 20;   /* inside [nbf, exp) for every option combination */
		/* every second checker has already refused something (no error_clear in between) when it is shown the token */
		if (tree % 2)
			(void)jwt_checker_verify(c, "eyJhbGciOiJub25lIn0.e30.c2ln");
		int r = jwt_checker_verify(c, tok);
		vf_now = T0;
		n_verifies++;
		vf_obs(r == 0);
		if (r)
			vf_violation("own-token-rejected", "%s/%s signed under %s, verified under %s, tree %d: %s", p->keyname, tok_alg_names[p->alg], PROV[sp], PROV[vp], tree,
				     jwt_checker_error_msg(c));
		else {
			json_t *gh = cap.head ? json_loads(cap.head, 0, NULL) : NULL, *gc = cap.claims ? json_loads(cap.claims, 0, NULL) : NULL;
			if (!gh || !json_equal(gh, eh))
				vf_violation("header-content-differs", "%s/%s tree %d: checker callback saw header %.300s", p->keyname, tok_alg_names[p->alg], tree, cap.head ? cap.head : "(none)");
			else if (!gc || !json_equal(gc, ec)) {
				char *want = tok_jdump(ec, JSON_COMPACT | JSON_SORT_KEYS);
				vf_violation("claims-content-differs", "%s/%s tree %d: checker callback saw claims %.300s, expected %.300s", p->keyname, tok_alg_names[p->alg], tree,
					     cap.claims ? cap.claims : "(none)", want);
				free(want);
			} else
				n_equal++;
			json_decref(gh);
			json_decref(gc);
		}
		free(cap.head);
		free(cap.claims);
		jwt_checker_free(c);
	}
out:
	vf_lfree(tok);
	free(ctext);
	free(htext);
	json_decref(eh);
	json_decref(ec);
	jwt_builder_free(b);
	jwt_set_crypto_ops("openssl");
}

/* ECDSA: classes of r and s lengths */
static long cls_count[2][3][3];
static void ecdsa_classes(int pi, int sp, long nsig)
{
	const rpair_t *p = &RP[pi];
	rkey_t *k = &RK[pi];
	const jwk_item_t *priv = jwks_item_get(k->priv, 0), *pub = jwks_item_get(k->pub, 0);
	jwt_set_crypto_ops(PROV[sp]);
	jwt_builder_t *b = jwt_builder_new();
	jwt_builder_setkey(b, p->alg, priv);
	jwt_checker_t *c[2];
	for (int v = 0; v < 2; v++) {
		c[v] = jwt_checker_new();
		jwt_checker_setkey(c[v], p->alg, pub);
	}
	long w = (k->vk->bits + 7) / 8;
	long local[3][3] = { { 0 } };
	for (long i = 0; i < nsig; i++) {
		jwt_value_t v;
		jwt_set_SET_INT(&v, "seq", i);
		v.replace = 1;
		jwt_builder_claim_set(b, &v);
		jwt_set_crypto_ops(PROV[sp]);
		char *tok = jwt_builder_generate(b);
		n_tokens++;
		if (!tok) {
			vf_violation("generate-fails", "%s/%s under %s: ECDSA generate #%ld failed: %s", p->keyname, tok_alg_names[p->alg], PROV[sp], i, jwt_builder_error_msg(b));
			continue;
		}
		const char *dot = strrchr(tok, '.');
		unsigned char sig[200];
		long sl = ref_b64_decode_strict(dot + 1, strlen(dot + 1), sig);
		int rz = 0, sz = 0;
		if (sl != 2 * w)
			vf_violation("signature-width", "%s/%s under %s: ECDSA signature of %ld bytes", p->keyname, tok_alg_names[p->alg], PROV[sp], sl);
		else {
			while (rz < 2 && sig[rz] == 0) rz++;
			while (sz < 2 && sig[w + sz] == 0) sz++;
			local[rz][sz]++;
			int interesting = rz || sz || (i % 64) == 0;
			if (interesting) {
				if (!rc_verify(k->vk, p->alg, tok, dot - tok, sig, sl))
					vf_violation("generated-token-invalid-by-reference", "%s/%s under %s (r short by %d, s short by %d): %s", p->keyname, tok_alg_names[p->alg], PROV[sp], rz,
						     sz, tok);
				for (int v = 0; v < 2; v++) {
					if (RP[pi].openssl_only && v == 1)
						continue;
					jwt_set_crypto_ops(PROV[v]);
					int r = jwt_checker_verify(c[v], tok);
					n_verifies++;
					if (r)
						vf_violation("own-token-rejected", "%s/%s signed under %s (r short by %d, s short by %d) rejected under %s: %s", p->keyname, tok_alg_names[p->alg],
							     PROV[sp], rz, sz, PROV[v], jwt_checker_error_msg(c[v]));
					else
						n_equal++;
				}
			}
		}
		vf_lfree(tok);
	}
	for (int a = 0; a < 3; a++)
		for (int d = 0; d < 3; d++) {
			cls_count[sp][a][d] += local[a][d];
			vf_obs(vf_hash_mix(a * 3 + d, local[a][d] > 0));
		}
	jwt_checker_free(c[0]);
	jwt_checker_free(c[1]);
	jwt_builder_free(b);
	jwt_set_crypto_ops("openssl");
}

static void enumerate_c05(void)
{
	build_trees();
	int tstep = vf_thorough ? 1 : 29;
	for (int pi = 0; pi < NRP; pi++) {
		for (int sp = 0; sp < 2; sp++)
			for (int vp = 0; vp < 2; vp++) {
				if (RP[pi].openssl_only && (sp || vp))
					continue;
				/* trees in chunks of 40 per case */
				for (int from = 0; from < NTREES; from += 40 * tstep) {
					if (!vf_case("%s/%s sign under %s verify under %s: JSON trees %d.. (step %d)", RP[pi].keyname, tok_alg_names[RP[pi].alg], PROV[sp], PROV[vp], from, tstep))
						continue;
					load_pair(pi);
					rc_rng_reseed(vf_case_index());
					for (int t = from; t < from + 40 * tstep && t < NTREES; t += tstep)
						roundtrip_one(pi, t, sp, vp, t % 16);
					if (from == 0)
						for (int t = first_nul_tree; t <= last_nul_tree; t++)
							roundtrip_one(pi, t, sp, vp, t % 16);
					vf_nontrivial_case();
				}
			}
	}
	/* ECDSA nonce classes */
	long per_case = 500, total = vf_thorough ? 20000 : 2000;
	for (int pi = 0; pi < NRP; pi++) {
		if (rc_family(RP[pi].alg) != RC_FAM_ES)
			continue;
		if (strcmp(RP[pi].keyname, "p256a") && strcmp(RP[pi].keyname, "p384") && strcmp(RP[pi].keyname, "p521") && strcmp(RP[pi].keyname, "k256"))
			continue;
		for (int sp = 0; sp < 2; sp++) {
			if (RP[pi].openssl_only && sp)
				continue;
			for (long chunk = 0; chunk < total / per_case; chunk++) {
				if (!vf_case("%s/%s under %s: ECDSA signatures %ld..%ld, r/s length classes", RP[pi].keyname, tok_alg_names[RP[pi].alg], PROV[sp], chunk * per_case,
					     (chunk + 1) * per_case - 1))
					continue;
				load_pair(pi);
				rc_rng_reseed(50000 + pi * 1000 + chunk);
				ecdsa_classes(pi, sp, per_case);
				vf_nontrivial_case();
			}
		}
	}
	/* key rotation with certain address reuse: the token of every round is made with, and accepted under, that round's key */
	rot_enumerate("roundtrip");
	vf_count("evaluations", n_tokens + n_verifies + rot_rounds + rot_checks);
	vf_count("tokens_generated", n_tokens);
	vf_count("verifications", n_verifies);
	vf_count("roundtrips_content_equal", n_equal);
	vf_count("=json_trees", NTREES);
	vf_count("documents_with_NUL_refused_by_builder", n_refused_nul);
	for (int sp = 0; sp < 2; sp++)
		for (int a = 0; a < 3; a++)
			for (int d = 0; d < 3; d++) {
				char nm[64];
				snprintf(nm, sizeof nm, "ecdsa_%s_r_short_%d_s_short_%d", PROV[sp], a, d);
				vf_count(nm, cls_count[sp][a][d]);
			}
}

/* ================================================================== C10: ref_builder */
enum { K_NONE, K_OCT, K_ES };
enum { CB_NONE, CB_ADD, CB_SETKEY, CB_DELCLAIMS, CB_DROPKEY };
typedef struct {
	json_t *h, *c;
	long iat, nbf, exp;   /* offsets; 0 = disabled */
	int key;
	int cb;
} bst_t;

enum {
	B_HSET_TYP, B_HSET_ALG, B_HSET_KID, B_HDEL_TYP, B_HDEL_ALL,
	B_CSET_IAT, B_CSET_NBF, B_CSET_EXP, B_CSET_SUB, B_CDEL_SUB, B_CDEL_ALL, B_CSET_EXP_STR, B_CSET_IAT_BOOL,
	B_IAT_OFF, B_IAT_ON, B_EXP_NEG, B_EXP_0, B_EXP_60, B_NBF_NEG, B_NBF_0, B_NBF_60, B_OFF_IAT_BAD,
	B_KEY_NONE, B_KEY_OCT, B_KEY_ES, B_KEY_ES_PUB,
	B_CB_NULL, B_CB_ADD, B_CB_SETKEY, B_CB_DELCLAIMS, B_CB_DROPKEY,
	B_HSET_TYP_INT, B_EXP_BIG, B_NBF_BIG, B_CSET_REALS, B_EXP_MAX,
	B_GEN_T0, B_GEN_T1, NBOPS
};
/* offsets beyond 2^31 and 2^32 seconds (time_t is 64 bits wide here) */
/* beyond 32 bits and beyond what a double holds exactly: the sum with the (even) clock is odd and above 2^53 resp. 2^60 */
#define OFF_EXP_BIG ((1L << 53) + 1)
#define OFF_NBF_BIG ((1L << 60) + 1)
static const char *bop_name[NBOPS] = { "header_set(typ,X)", "header_set(alg,none)", "header_set(kid,k)", "header_del(typ)", "header_del(all)", "claim_set(iat,7)", "claim_set(nbf,7)",
	"claim_set(exp,7)", "claim_set(sub,s)", "claim_del(sub)", "claim_del(all)", "claim_set(exp,\"never\")", "claim_set(iat,true)", "enable_iat(0)", "enable_iat(1)", "time_offset(EXP,-5)", "time_offset(EXP,0)",
	"time_offset(EXP,60)", "time_offset(NBF,-5)", "time_offset(NBF,0)", "time_offset(NBF,60)", "time_offset(IAT,1)!", "setkey(none,NULL)", "setkey(none,oct+HS256)",
	"setkey(ES256,P-256 private)", "setkey(ES256,P-256 public)!", "setcb(NULL)", "setcb(adds claim+header)", "setcb(selects HS256 key)", "setcb(deletes all claims)", "setcb(withdraws key and alg)",
	"header_set(typ,7)", "time_offset(EXP,2^53+1)", "time_offset(NBF,2^60+1)", "claim_set(JSON {exp:1.5,nbf:2.5,iat:3.5})", "time_offset(EXP,LONG_MAX)",
	"generate@T0", "generate@T0+1000" };

static jwk_set_t *bk_oct, *bk_es, *bk_es_pub;
static unsigned char BK[32];

static void bst_init(bst_t *s) { memset(s, 0, sizeof *s); s->h = json_object(); s->c = json_object(); s->iat = 1; }
static void bst_free(bst_t *s) { json_decref(s->h); json_decref(s->c); }
static void bst_copy(bst_t *d, const bst_t *s) { *d = *s; d->h = json_deep_copy(s->h); d->c = json_deep_copy(s->c); }
static char *bst_canon(const bst_t *s)
{
	char *h = tok_jdump(s->h, JSON_COMPACT | JSON_SORT_KEYS), *c = tok_jdump(s->c, JSON_COMPACT | JSON_SORT_KEYS);
	char *r = malloc(strlen(h) + strlen(c) + 64);
	sprintf(r, "%s|%s|%ld|%ld|%ld|%d|%d", h, c, s->iat, s->nbf, s->exp, s->key, s->cb);
	free(h);
	free(c);
	return r;
}

static void mset(json_t *o, const char *k, json_t *v, int replace)
{
	if (!replace && json_object_get(o, k)) {
		json_decref(v);
		return;
	}
	json_object_set_new(o, k, v);
}

/* model step for configuration ops */
static void bmodel_step(bst_t *s, int op)
{
	switch (op) {
	case B_HSET_TYP: mset(s->h, "typ", json_string("X"), 0); break;
	case B_HSET_ALG: mset(s->h, "alg", json_string("none"), 0); break;
	case B_HSET_KID: mset(s->h, "kid", json_string("k"), 0); break;
	case B_HDEL_TYP: json_object_del(s->h, "typ"); break;
	case B_HDEL_ALL: json_object_clear(s->h); break;
	case B_CSET_IAT: mset(s->c, "iat", json_integer(7), 0); break;
	case B_CSET_NBF: mset(s->c, "nbf", json_integer(7), 0); break;
	case B_CSET_EXP: mset(s->c, "exp", json_integer(7), 0); break;
	case B_CSET_SUB: mset(s->c, "sub", json_string("s"), 0); break;
	case B_CDEL_SUB: json_object_del(s->c, "sub"); break;
	case B_CDEL_ALL: json_object_clear(s->c); break;
	case B_CSET_EXP_STR: mset(s->c, "exp", json_string("never"), 0); break;
	case B_CSET_IAT_BOOL: mset(s->c, "iat", json_true(), 0); break;
	case B_IAT_OFF: s->iat = 0; break;
	case B_IAT_ON: s->iat = 1; break;
	case B_EXP_NEG: case B_EXP_0: s->exp = 0; break;
	case B_EXP_60: s->exp = 60; break;
	case B_NBF_NEG: case B_NBF_0: s->nbf = 0; break;
	case B_NBF_60: s->nbf = 60; break;
	case B_HSET_TYP_INT: mset(s->h, "typ", json_integer(7), 0); break;
	case B_CSET_REALS:   /* whole-object set without replace: members that are missing are added */
		mset(s->c, "exp", json_real(1.5), 0);
		mset(s->c, "nbf", json_real(2.5), 0);
		mset(s->c, "iat", json_real(3.5), 0);
		break;
	case B_EXP_BIG: s->exp = OFF_EXP_BIG; break;
	case B_NBF_BIG: s->nbf = OFF_NBF_BIG; break;
	case B_EXP_MAX: s->exp = LONG_MAX; break;
	case B_OFF_IAT_BAD: break;
	case B_KEY_NONE: s->key = K_NONE; break;
	case B_KEY_OCT: s->key = K_OCT; break;
	case B_KEY_ES: s->key = K_ES; break;
	case B_KEY_ES_PUB: break;   /* refused: nothing changes */
	case B_CB_NULL: s->cb = CB_NONE; break;
	case B_CB_ADD: s->cb = CB_ADD; break;
	case B_CB_SETKEY: s->cb = CB_SETKEY; break;
	case B_CB_DELCLAIMS: s->cb = CB_DELCLAIMS; break;
	case B_CB_DROPKEY: s->cb = CB_DROPKEY; break;
	}
}

static int cb_add(jwt_t *jwt, jwt_config_t *cfg)
{
	jwt_value_t v;
	(void)cfg;
	jwt_set_SET_INT(&v, "cb", 1); v.replace = 1; jwt_claim_set(jwt, &v);
	jwt_set_SET_STR(&v, "hcb", "x"); v.replace = 1; jwt_header_set(jwt, &v);
	jwt_set_SET_STR(&v, "sub", "from-callback"); v.replace = 1; jwt_claim_set(jwt, &v);
	return 0;
}
static int cb_setkey(jwt_t *jwt, jwt_config_t *cfg)
{
	(void)jwt;
	cfg->key = jwks_item_get(bk_oct, 0);
	cfg->alg = JWT_ALG_HS256;
	return 0;
}
static int cb_delclaims(jwt_t *jwt, jwt_config_t *cfg)
{
	(void)cfg;
	jwt_claim_del(jwt, NULL);
	return 0;
}

static int cb_dropkey(jwt_t *jwt, jwt_config_t *cfg)
{
	(void)jwt;
	cfg->key = NULL;
	cfg->alg = JWT_ALG_NONE;
	return 0;
}

static int bimpl_step(jwt_builder_t *b, int op)
{
	jwt_value_t v;
	switch (op) {
	case B_HSET_TYP: jwt_set_SET_STR(&v, "typ", "X"); return jwt_builder_header_set(b, &v);
	case B_HSET_ALG: jwt_set_SET_STR(&v, "alg", "none"); return jwt_builder_header_set(b, &v);
	case B_HSET_KID: jwt_set_SET_STR(&v, "kid", "k"); return jwt_builder_header_set(b, &v);
	case B_HDEL_TYP: return jwt_builder_header_del(b, "typ");
	case B_HDEL_ALL: return jwt_builder_header_del(b, NULL);
	case B_CSET_IAT: jwt_set_SET_INT(&v, "iat", 7); return jwt_builder_claim_set(b, &v);
	case B_CSET_NBF: jwt_set_SET_INT(&v, "nbf", 7); return jwt_builder_claim_set(b, &v);
	case B_CSET_EXP: jwt_set_SET_INT(&v, "exp", 7); return jwt_builder_claim_set(b, &v);
	case B_CSET_SUB: jwt_set_SET_STR(&v, "sub", "s"); return jwt_builder_claim_set(b, &v);
	case B_CDEL_SUB: return jwt_builder_claim_del(b, "sub");
	case B_CDEL_ALL: return jwt_builder_claim_del(b, NULL);
	case B_CSET_EXP_STR: jwt_set_SET_STR(&v, "exp", "never"); return jwt_builder_claim_set(b, &v);
	case B_CSET_IAT_BOOL: jwt_set_SET_BOOL(&v, "iat", 1); return jwt_builder_claim_set(b, &v);
	case B_IAT_OFF: return jwt_builder_enable_iat(b, 0);
	case B_IAT_ON: return jwt_builder_enable_iat(b, 1);
	case B_EXP_NEG: return jwt_builder_time_offset(b, JWT_CLAIM_EXP, -5);
	case B_EXP_0: return jwt_builder_time_offset(b, JWT_CLAIM_EXP, 0);
	case B_EXP_60: return jwt_builder_time_offset(b, JWT_CLAIM_EXP, 60);
	case B_NBF_NEG: return jwt_builder_time_offset(b, JWT_CLAIM_NBF, -5);
	case B_NBF_0: return jwt_builder_time_offset(b, JWT_CLAIM_NBF, 0);
	case B_NBF_60: return jwt_builder_time_offset(b, JWT_CLAIM_NBF, 60);
	case B_HSET_TYP_INT: jwt_set_SET_INT(&v, "typ", 7); return jwt_builder_header_set(b, &v);
	case B_CSET_REALS: {
		char txt[] = "{\"exp\":1.5,\"nbf\":2.5,\"iat\":3.5}";
		jwt_set_SET_JSON(&v, NULL, txt);
		return jwt_builder_claim_set(b, &v);
	}
	case B_EXP_BIG: return jwt_builder_time_offset(b, JWT_CLAIM_EXP, OFF_EXP_BIG);
	case B_NBF_BIG: return jwt_builder_time_offset(b, JWT_CLAIM_NBF, OFF_NBF_BIG);
	case B_EXP_MAX: return jwt_builder_time_offset(b, JWT_CLAIM_EXP, LONG_MAX);
	case B_OFF_IAT_BAD: return jwt_builder_time_offset(b, JWT_CLAIM_IAT, 1);
	case B_KEY_NONE: return jwt_builder_setkey(b, JWT_ALG_NONE, NULL);
	case B_KEY_OCT: return jwt_builder_setkey(b, JWT_ALG_NONE, jwks_item_get(bk_oct, 0));
	case B_KEY_ES: return jwt_builder_setkey(b, JWT_ALG_ES256, jwks_item_get(bk_es, 0));
	case B_KEY_ES_PUB: return jwt_builder_setkey(b, JWT_ALG_ES256, jwks_item_get(bk_es_pub, 0));
	case B_CB_NULL: return jwt_builder_setcb(b, NULL, NULL);
	case B_CB_ADD: return jwt_builder_setcb(b, cb_add, NULL);
	case B_CB_SETKEY: return jwt_builder_setcb(b, cb_setkey, NULL);
	case B_CB_DELCLAIMS: return jwt_builder_setcb(b, cb_delclaims, NULL);
	case B_CB_DROPKEY: return jwt_builder_setcb(b, cb_dropkey, NULL);
	}
	return 0;
}

static char *builder_snapshot(jwt_builder_t *b)
{
	jwt_value_t v;
	char *h = NULL, *c = NULL;
	jwt_set_GET_JSON(&v, NULL);
	if (jwt_builder_header_get(b, &v) == JWT_VALUE_ERR_NONE) { h = strdup(v.json_val); vf_lfree(v.json_val); }
	jwt_set_GET_JSON(&v, NULL);
	if (jwt_builder_claim_get(b, &v) == JWT_VALUE_ERR_NONE) { c = strdup(v.json_val); vf_lfree(v.json_val); }
	char *r = malloc((h ? strlen(h) : 0) + (c ? strlen(c) : 0) + 8);
	sprintf(r, "%s|%s", h ? h : "?", c ? c : "?");
	free(h);
	free(c);
	return r;
}

static long c10_gens, c10_tokens;

/* strict decoding of one token part: unpadded base64url, canonical trailing bits */
static long strict_part(const char *s, unsigned char **out)
{
	size_t n = strlen(s);
	*out = malloc(3 * n / 4 + 4);
	long l = ref_b64_decode_strict(s, n, *out);
	if (l < 0)
		return -1;
	char *re = tok_b64(*out, l);
	int canon = !strcmp(re, s);
	free(re);
	return canon ? l : -2;
}

/* generate on the real builder and compare with what ref_builder says the token must contain */
static void check_generate(jwt_builder_t *b, const bst_t *s, time_t clock, const char *hist)
{
	vf_now = clock;
	char *before = builder_snapshot(b);
	char *tok = jwt_builder_generate(b);
	char *after = builder_snapshot(b);
	c10_gens++;
	if (strcmp(before, after))
		vf_violation("builder-changed-by-generate", "after [%s]: builder was %s, after generate it is %s", hist, before, after);
	/* model: effective key/alg */
	int key = s->key;
	if (s->cb == CB_SETKEY)
		key = K_OCT;
	else if (s->cb == CB_DROPKEY)
		key = K_NONE;
	json_t *eh = json_deep_copy(s->h), *ec = json_deep_copy(s->c);
	/* clock + offset that no long can hold: there is no token that says what the builder was told -- generate has to refuse */
	int unrepresentable = (s->nbf > 0 && s->nbf > LONG_MAX - (long)clock) || (s->exp > 0 && s->exp > LONG_MAX - (long)clock);
	if (unrepresentable) {
		vf_obs(vf_hash_mix(tok != NULL, 99));
		if (tok)
			vf_violation("token-despite-unrepresentable-time-claim", "after [%s]: clock + offset does not fit the type, yet generate returned %s", hist, tok);
		else if (!jwt_builder_error(b) || !jwt_builder_error_msg(b)[0])
			vf_violation("generate-fails-without-error", "after [%s]: generate returned NULL without an error", hist);
		jwt_builder_error_clear(b);
		vf_lfree(tok);
		json_decref(eh);
		json_decref(ec);
		free(before);
		free(after);
		vf_now = T0;
		return;
	}
	if (s->iat) json_object_set_new(ec, "iat", json_integer(clock));
	if (s->nbf) json_object_set_new(ec, "nbf", json_integer(clock + s->nbf));
	if (s->exp) json_object_set_new(ec, "exp", json_integer(clock + s->exp));
	if (s->cb == CB_ADD) {
		json_object_set_new(ec, "cb", json_integer(1));
		json_object_set_new(eh, "hcb", json_string("x"));
		json_object_set_new(ec, "sub", json_string("from-callback"));
	} else if (s->cb == CB_DELCLAIMS)
		json_object_clear(ec);
	const char *algname = key == K_OCT ? "HS256" : key == K_ES ? "ES256" : "none";
	if (key != K_NONE && !json_object_get(eh, "typ"))
		json_object_set_new(eh, "typ", json_string("JWT"));
	json_object_set_new(eh, "alg", json_string(algname));
	vf_obs(vf_hash_mix(tok != NULL, key));
	if (!tok)
		vf_violation("generate-fails", "after [%s]: generate returned NULL: %s", hist, jwt_builder_error_msg(b));
	else {
		c10_tokens++;
		/* shape: exactly three parts, each unpadded canonical base64url */
		int dots = 0;
		for (const char *q = tok; *q; q++)
			dots += *q == '.';
		char *copy = strdup(tok);
		char *p1 = strchr(copy, '.'), *p2 = p1 ? strchr(p1 + 1, '.') : NULL;
		if (dots != 2 || !p1 || !p2)
			vf_violation("token-shape", "after [%s]: token does not have exactly three parts: %s", hist, tok);
		else {
			*p1 = 0;
			*p2 = 0;
			unsigned char *d0, *d1, *d2;
			long l0 = strict_part(copy, &d0), l1 = strict_part(p1 + 1, &d1), l2 = p2[1] ? strict_part(p2 + 1, &d2) : (d2 = NULL, 0);
			if (l0 <= 0 || l1 <= 0 || l2 < 0)
				vf_violation("token-encoding", "after [%s]: a part is not unpadded canonical base64url (%ld,%ld,%ld): %s", hist, l0, l1, l2, tok);
			else {
				json_t *gh = json_loadb((char *)d0, l0, 0, NULL), *gc = json_loadb((char *)d1, l1, 0, NULL);
				if (!gh || !json_is_object(gh) || !json_equal(gh, eh)) {
					char *w = tok_jdump(eh, JSON_COMPACT | JSON_SORT_KEYS);
					vf_violation("header-differs", "after [%s]: header is %.*s, model says %s", hist, (int)l0, d0, w);
					free(w);
				}
				if (!gc || !json_is_object(gc) || !json_equal(gc, ec)) {
					char *w = tok_jdump(ec, JSON_COMPACT | JSON_SORT_KEYS);
					vf_violation("payload-differs", "after [%s] at clock T0+%ld: payload is %.*s, model says %s", hist, (long)(clock - T0), (int)l1, d1, w);
					free(w);
				}
				/* sorted keys, compact: the documents are written canonically */
				if (gh) {
					char *canon = tok_jdump(gh, JSON_COMPACT | JSON_SORT_KEYS);
					if (strlen(canon) != (size_t)l0 || memcmp(canon, d0, l0))
						vf_obs(5150);
					free(canon);
				}
				json_decref(gh);
				json_decref(gc);
				size_t ilen = (p2 - copy);
				if (key == K_NONE) {
					if (l2 != 0)
						vf_violation("unsigned-token-with-signature", "after [%s]: alg none but third part is not empty: %s", hist, tok);
				} else if (key == K_OCT) {
					unsigned char mac[64];
					size_t ml = rc_hmac(JWT_ALG_HS256, BK, 32, tok, ilen, mac);
					if ((long)ml != l2 || memcmp(mac, d2, ml))
						vf_violation("signature-invalid", "after [%s]: HS256 MAC differs from the reference: %s", hist, tok);
				} else if (!rc_verify(vk_get("p256a"), JWT_ALG_ES256, tok, ilen, d2, l2))
					vf_violation("signature-invalid", "after [%s]: ES256 signature does not verify by reference: %s", hist, tok);
			}
			free(d0);
			free(d1);
			free(d2);
		}
		free(copy);
	}
	vf_lfree(tok);
	free(before);
	free(after);
	json_decref(eh);
	json_decref(ec);
	vf_now = T0;
}

typedef struct {
	char *canon;
	int parent, op, depth;
} bnode_t;

static void enumerate_c10(void)
{
	vk_oct_bytes(77, BK, 32);
	char *t;
	t = vk_oct_jwk(BK, 32, "HS256", NULL); bk_oct = jwks_create(t); free(t);
	t = vk_jwk_text(vk_get("p256a"), 1, NULL, NULL); bk_es = jwks_create(t); free(t);
	t = vk_jwk_text(vk_get("p256a"), 0, NULL, NULL); bk_es_pub = jwks_create(t); free(t);
	int maxdepth = vf_thorough ? 16 : 4;
	int cap = 1 << 20, hcap = 1 << 21;
	bnode_t *N = calloc(cap, sizeof *N);
	int *hash = malloc(sizeof(int) * hcap), nn = 0;
	for (int i = 0; i < hcap; i++)
		hash[i] = -1;
	bst_t init;
	bst_init(&init);
	N[0] = (bnode_t){ bst_canon(&init), -1, -1, 0 };
	hash[vf_hash_str(N[0].canon) & (hcap - 1)] = 0;
	nn = 1;
	bst_free(&init);
	long transitions = 0;
	int cur;
	for (cur = 0; cur < nn; cur++) {
		if (N[cur].depth >= maxdepth)
			break;
		int hops[16], hn = 0, tmp[16], id = cur;
		while (N[id].parent >= 0) {
			tmp[hn++] = N[id].op;
			id = N[id].parent;
		}
		for (int i = 0; i < hn; i++)
			hops[i] = tmp[hn - 1 - i];
		/* rebuild the model state of cur */
		bst_t s;
		bst_init(&s);
		for (int i = 0; i < hn; i++)
			bmodel_step(&s, hops[i]);
		for (int op = 0; op < NBOPS; op++) {
			bst_t s2;
			bst_copy(&s2, &s);
			int is_gen = op == B_GEN_T0 || op == B_GEN_T1;
			if (!is_gen) {
				bmodel_step(&s2, op);
				char *canon = bst_canon(&s2);
				uint64_t h = vf_hash_str(canon);
				int i = h & (hcap - 1), found = 0;
				while (hash[i] >= 0) {
					if (!strcmp(N[hash[i]].canon, canon)) {
						found = 1;
						break;
					}
					i = (i + 1) & (hcap - 1);
				}
				if (!found && nn < cap) {
					N[nn] = (bnode_t){ canon, cur, op, N[cur].depth + 1 };
					hash[i] = nn++;
				} else
					free(canon);
			}
			transitions++;
			char hist[600];
			size_t o = 0;
			hist[0] = 0;
			for (int i = 0; i < hn; i++)
				o += snprintf(hist + o, sizeof hist - o, "%s; ", bop_name[hops[i]]);
			snprintf(hist + o, sizeof hist - o, "%s", bop_name[op]);
			if (vf_case("builder: [%s]", hist)) {
				rc_rng_reseed(vf_case_index());
				jwt_builder_t *b = jwt_builder_new();
				for (int i = 0; i < hn; i++)
					bimpl_step(b, hops[i]);
				if (is_gen)
					check_generate(b, &s, op == B_GEN_T0 ? T0 : T0 + 1000, hist);
				else {
					int rc = bimpl_step(b, op);
					if (op == B_KEY_ES_PUB && rc == 0)
						vf_violation("public-key-accepted-for-signing", "after [%s]: setkey with a public-only key succeeded", hist);
					if (op == B_OFF_IAT_BAD && rc == 0)
						vf_violation("invalid-call-accepted", "after [%s]: time_offset(IAT) succeeded", hist);
					/* the successor state is observed through a generate at each clock, then a second generate (builder unchanged) */
					check_generate(b, &s2, T0, hist);
					check_generate(b, &s2, T0 + 1000, hist);
				}
				jwt_builder_free(b);
				vf_nontrivial_case();
			}
			bst_free(&s2);
		}
		bst_free(&s);
	}
	vf_count("=states", nn);
	vf_count("=transitions", transitions);
	vf_count("evaluations", c10_gens);
	vf_count("tokens_checked", c10_tokens);
	vf_count("=frontier_closed", cur == nn);
}

static void enumerate(void)
{
	vf_alloc_install();
	vf_alloc_track(1);
	vk_load();
	vk_load_extra();
	rc_rng_install();
	vf_now = T0;
	lj_select_provider(vf_param);
	if (!strcmp(vf_prop, "C05"))
		enumerate_c05();
	else if (!strcmp(vf_prop, "C10"))
		enumerate_c10();
	else {
		fprintf(stderr, "roundtrip: unknown --prop %s\n", vf_prop);
		exit(2);
	}
}

int main(int argc, char **argv)
{
	return vf_main(argc, argv, enumerate);
}
