/* C01 -- no acceptance without a valid signature: complete d=1 mutation neighbourhood of valid tokens
 *        for every (key, algorithm) pair, judged one-directionally by ref_crypto at the integer level.
 * C12 -- provider interchangeability: cross sign/verify matrix, byte-identical deterministic tokens,
 *        agreement on invalid mutants, provider switching BFS, JWT_CRYPTO environment values.        */
#define OPENSSL_SUPPRESS_DEPRECATED 1
#include "vf.h"
#include "keys.h"
#include "tok.h"
#include "rotate.h"
#include <openssl/bn.h>
#include <openssl/ec.h>
#include <openssl/ecdsa.h>
#include <openssl/x509.h>
#include <openssl/core_names.h>
#include <unistd.h>
#include <sys/wait.h>

static const time_t T0 = 1700000000;

typedef struct {
	const char *keyname;   /* pool key or "octNN" */
	jwt_alg_t alg;
	int openssl_only;
	int thorough_only;
	const char *foreign_x;  /* OKP only: the private JWK carries this other key's x next to its own d (the key is what d says) */
	/* runtime */
	vk_t *vk;
	unsigned char oct[64];
	size_t octlen;
	jwk_set_t *pub, *priv;
	char *tok_ref[2];      /* signed by ref_crypto, two payloads */
	char *tok_lib;         /* signed by jwt_builder_generate */
} pair_t;

static pair_t PAIRS[] = {
	{ "oct32", JWT_ALG_HS256, 0, 0 }, { "oct48", JWT_ALG_HS384, 0, 0 }, { "oct64", JWT_ALG_HS512, 0, 0 },
	{ "rsa2048a", JWT_ALG_RS256, 0, 0 }, { "rsa2048a", JWT_ALG_RS384, 0, 1 }, { "rsa2048a", JWT_ALG_RS512, 0, 1 },
	{ "rsa2048a", JWT_ALG_PS256, 0, 0 }, { "rsa2048a", JWT_ALG_PS384, 0, 1 }, { "rsa2048a", JWT_ALG_PS512, 0, 1 },
	{ "rsapss2048", JWT_ALG_PS256, 0, 1 }, { "rsa3072", JWT_ALG_RS256, 0, 1 }, { "rsa2048e3", JWT_ALG_RS256, 0, 1 },
	{ "p256a", JWT_ALG_ES256, 0, 0 }, { "p384", JWT_ALG_ES384, 0, 0 }, { "p521", JWT_ALG_ES512, 0, 0 }, { "k256", JWT_ALG_ES256K, 1, 0 },
	{ "p256_x0", JWT_ALG_ES256, 0, 1 }, { "k256", JWT_ALG_ES256, 1, 1 },
	{ "ed25519a", JWT_ALG_EDDSA, 0, 0 }, { "ed448", JWT_ALG_EDDSA, 0, 0 }, { "ed25519a", JWT_ALG_EDDSA, 0, 0, "ed25519b" },
	/* RSA moduli that are not a whole number of octets (keys/extra) */
	{ "rsa2050", JWT_ALG_RS256, 0, 0 }, { "rsa2050", JWT_ALG_PS256, 0, 1 }, { "rsa3002", JWT_ALG_RS384, 0, 1 },
};
#define NPAIRS ((int)(sizeof PAIRS / sizeof *PAIRS))

static const char *PAYLOADS[2] = { "{\"sub\":\"alice\",\"adm\":false}", "{ \"sub\" :\"mallory\", \"adm\":true ,\"n\": 1.50 }" };

static int pair_active(const pair_t *p, int provider)
{
	if (p->thorough_only && !vf_thorough)
		return 0;
	if (p->openssl_only && provider == 1)
		return 0;
	return 1;
}

static char *ref_token(const pair_t *p, jwt_alg_t halg, jwt_alg_t signalg, const char *payload)
{
	char hdr[96];
	/* the second payload travels with a header that is valid JSON but not in libjwt's own canonical form (member order,
	 * white space, an escaped character): what is authenticated is the raw text, never a re-encoding */
	if (payload == PAYLOADS[1])
		snprintf(hdr, sizeof hdr, "{ \"typ\" : \"J\\u0057T\",\n  \"alg\":\"%s\" }", tok_alg_names[halg]);
	else
		snprintf(hdr, sizeof hdr, "{\"alg\":\"%s\",\"typ\":\"JWT\"}", tok_alg_names[halg]);
	char *input = tok_signing_input(hdr, payload), *t = NULL;
	if (!p->vk) {
		unsigned char mac[64];
		size_t l = rc_hmac(signalg, p->oct, p->octlen, input, strlen(input), mac);
		t = tok_attach(input, mac, l);
	} else {
		unsigned char *sig;
		size_t sl;
		if (!rc_sign(p->vk, signalg, input, strlen(input), &sig, &sl)) {
			t = tok_attach(input, sig, sl);
			free(sig);
		}
	}
	free(input);
	return t;
}

static void setup_pairs(void)
{
	for (int i = 0; i < NPAIRS; i++) {
		pair_t *p = &PAIRS[i];
		char *pubj, *privj;
		if (!strncmp(p->keyname, "oct", 3)) {
			p->octlen = atoi(p->keyname + 3);
			vk_oct_bytes(40 + i, p->oct, p->octlen);
			pubj = vk_oct_jwk(p->oct, p->octlen, NULL, NULL);
			privj = strdup(pubj);
		} else {
			p->vk = vk_get(p->keyname);
			/* an RSA-PSS key becomes one through its alg attribute */
			const char *attr = p->vk->pss ? tok_alg_names[p->alg] : NULL;
			pubj = vk_jwk_text(p->vk, 0, attr, NULL);
			privj = vk_jwk_text(p->vk, 1, attr, NULL);
			if (p->foreign_x) {
				json_t *j = json_loads(privj, 0, NULL);
				json_object_set(j, "x", json_object_get(vk_get(p->foreign_x)->pub_jwk, "x"));
				free(privj);
				privj = tok_jdump(j, JSON_COMPACT);
				json_decref(j);
			}
		}
		p->pub = jwks_create(pubj);
		p->priv = jwks_create(privj);
		free(pubj);
		free(privj);
		if (jwks_item_error(jwks_item_get(p->pub, 0)) || jwks_item_error(jwks_item_get(p->priv, 0))) {
			fprintf(stderr, "sigmut: cannot import %s\n", p->keyname);
			exit(2);
		}
		rc_rng_reseed(7000 + i);
		for (int k = 0; k < 2; k++)
			p->tok_ref[k] = ref_token(p, p->alg, p->alg, PAYLOADS[k]);
	}
}

/* the same key with its alg attribute set: configurations where the pinned algorithm comes from the key */
static jwk_set_t *attr_set(pair_t *p)
{
	static jwk_set_t *cache[64];
	int i = (int)(p - PAIRS);
	if (!cache[i]) {
		char *j = p->vk ? vk_jwk_text(p->vk, 0, tok_alg_names[p->alg], "kid-1") : vk_oct_jwk(p->oct, p->octlen, tok_alg_names[p->alg], "kid-1");
		cache[i] = jwks_create(j);
		free(j);
	}
	return cache[i];
}
static int keyonly_cb(jwt_t *jwt, jwt_config_t *cfg)
{
	(void)jwt;
	cfg->key = cfg->ctx;
	return 0;
}
static jwt_alg_t keyalg_cb_alg;
static int keyalg_cb(jwt_t *jwt, jwt_config_t *cfg)
{
	(void)jwt;
	cfg->key = cfg->ctx;
	cfg->alg = keyalg_cb_alg;
	return 0;
}
/* how: 0 explicit alg with setkey, 1 alg from the key's attribute, 2 callback supplies the key (alg from its attribute),
 * 3 callback supplies key (without attribute) and alg */
static jwt_checker_t *pair_checker_how(pair_t *p, int how)
{
	jwt_checker_t *c = jwt_checker_new();
	const jwk_item_t *it = jwks_item_get(attr_set(p), 0);
	int rc = 0;
	if (how == 1)
		rc = jwt_checker_setkey(c, JWT_ALG_NONE, it);
	else if (how == 2)
		rc = jwt_checker_setcb(c, keyonly_cb, (void *)it);
	else if (how == 3) {
		keyalg_cb_alg = p->alg;
		rc = jwt_checker_setcb(c, keyalg_cb, (void *)jwks_item_get(jwks_item_alg(jwks_item_get(p->pub, 0)) == JWT_ALG_NONE ? p->pub : attr_set(p), 0));
	}
	else
		rc = jwt_checker_setkey(c, p->alg, jwks_item_get(p->pub, 0));
	if (rc) {
		fprintf(stderr, "sigmut: checker configuration %d failed for %s/%s: %s\n", how, p->keyname, tok_alg_names[p->alg], jwt_checker_error_msg(c));
		exit(2);
	}
	return c;
}

static jwt_checker_t *pair_checker(const pair_t *p)
{
	jwt_checker_t *c = jwt_checker_new();
	const jwk_item_t *it = jwks_item_get(p->pub, 0);
	if (jwt_checker_setkey(c, jwks_item_alg(it) == JWT_ALG_NONE ? p->alg : JWT_ALG_NONE, it)) {
		fprintf(stderr, "sigmut: setkey failed for %s/%s: %s\n", p->keyname, tok_alg_names[p->alg], jwt_checker_error_msg(c));
		exit(2);
	}
	return c;
}

/* reference verdict on a token for pair p: 1 valid (integer level, pinned alg in the header), 0 not */
static int ref_valid(const pair_t *p, const char *tok, const char **why)
{
	rt_t t;
	int ok = 0;
	rt_parse(tok, &t);
	*why = "";
	if (t.dots < 2 || !t.head_is_object || !t.alg_text)
		*why = "malformed";
	else if (t.alg != p->alg)
		*why = "header-alg-not-pinned";
	else if (t.declen[2] <= 0)
		*why = "signature-does-not-decode";
	else if (!p->vk) {
		unsigned char mac[64];
		size_t l = rc_hmac(p->alg, p->oct, p->octlen, tok, t.input_len, mac);
		ok = (long)l == t.declen[2] && !memcmp(mac, t.dec[2], l);
		if (!ok)
			*why = "hmac-differs";
	} else {
		ok = rc_verify(p->vk, p->alg, tok, t.input_len, t.dec[2], t.declen[2]);
		if (!ok)
			*why = "signature-invalid";
	}
	rt_free(&t);
	return ok;
}

/* Is the token a re-encoding of a validly signed one that some verifier reads as the same signature?  Known case:
 * nettle ignores the final (always zero) octet of the S half of an Ed448 signature.  Such variants are neither
 * "signed as RFC 7518 prescribes" nor "not validly signed at all": C12 makes no demand on them (C01 still does). */
static int ref_malleable_variant(const pair_t *p, const char *tok)
{
	rt_t t;
	int ok = 0;
	rt_parse(tok, &t);
	if (t.dots == 2 && t.alg == p->alg && p->vk && !strcmp(p->vk->crv, "Ed448") && t.declen[2] == 114) {
		unsigned char sig[114];
		memcpy(sig, t.dec[2], 114);
		sig[113] = 0;
		ok = rc_verify(p->vk, p->alg, tok, t.input_len, sig, 114);
	}
	rt_free(&t);
	return ok;
}

static long n_ver, n_acc, n_acc_mut;
static int nvio;

/* C01 oracle for one mutant under the current provider */
static void judge(const pair_t *p, jwt_checker_t *c, const char *tok, const char *cls, int is_base)
{
	int r = jwt_checker_verify(c, tok);
	n_ver++;
	vf_obs(r == 0);
	if (r != 0) {
		if (is_base)
			vf_violation("base-token-rejected", "%s/%s [%s]: the unmutated valid token is rejected: %s", p->keyname, tok_alg_names[p->alg], jwt_get_crypto_ops(),
				     jwt_checker_error_msg(c));
		return;
	}
	n_acc++;
	if (!is_base)
		n_acc_mut++;
	const char *why;
	if (!ref_valid(p, tok, &why)) {
		char key[200];
		/* key type / algorithm / provider / mutation class: fine enough that one finding never hides another */
		snprintf(key, sizeof key, "accepted-without-valid-signature|%s|%s/%s|%s|%s", why, p->vk ? (p->vk->crv[0] ? p->vk->crv : p->vk->kty) : "oct",
			 tok_alg_names[p->alg], jwt_get_crypto_ops(), cls);
		vf_violation(key, "%s/%s [%s] mutation class %s accepted: %s", p->keyname, tok_alg_names[p->alg], jwt_get_crypto_ops(), cls, tok);
	}
}

/* ------------------------------------------------------------------ mutation classes */
typedef void (*emit_fn)(const pair_t *, jwt_checker_t *, const char *, const char *);

static void emit_c01(const pair_t *p, jwt_checker_t *c, const char *tok, const char *cls) { judge(p, c, tok, cls, 0); }

static void with_sig(const pair_t *p, jwt_checker_t *c, const char *input, size_t ilen, const unsigned char *sig, size_t sl, const char *cls, emit_fn emit)
{
	char *s = tok_b64(sig, sl);
	char *t = malloc(ilen + strlen(s) + 2);
	memcpy(t, input, ilen);
	t[ilen] = '.';
	strcpy(t + ilen + 1, s);
	emit(p, c, t, cls);
	free(t);
	free(s);
}

/* class 1+2: the signature segment */
static void mutate_signature(const pair_t *p, jwt_checker_t *c, const char *base, int part, emit_fn emit)
{
	rt_t t;
	rt_parse(base, &t);
	size_t ilen = t.input_len;
	long sl = t.declen[2];
	unsigned char *sig = malloc(sl + 80);
	const char *seg3 = t.seg[2];
	size_t l3 = strlen(seg3);
	char *m = malloc(2 * strlen(base) + 64);
	if (part == 0) {
		/* every single-bit flip of the decoded signature */
		for (long i = 0; i < sl; i++)
			for (int b = 0; b < 8; b++) {
				memcpy(sig, t.dec[2], sl);
				sig[i] ^= 1 << b;
				with_sig(p, c, base, ilen, sig, sl, i == sl - 1 ? "sig-bit-flip:final-octet" : "sig-bit-flip", emit);
			}
	} else if (part == 1) {
		/* every byte value in the first and in the last signature byte */
		for (int v = 0; v < 256; v++) {
			memcpy(sig, t.dec[2], sl);
			if (sig[0] != v) { sig[0] = v; with_sig(p, c, base, ilen, sig, sl, "sig-first-byte", emit); }
			memcpy(sig, t.dec[2], sl);
			if (sig[sl - 1] != v) { sig[sl - 1] = v; with_sig(p, c, base, ilen, sig, sl, "sig-last-byte", emit); }
		}
		/* every substitution of the last signature character (non-canonical trailing bits) and of the first */
		for (int a = 0; a < 64; a++) {
			strcpy(m, base);
			if (m[strlen(m) - 1] != ref_b64_abc[a]) { m[strlen(m) - 1] = ref_b64_abc[a]; emit(p, c, m, "sig-last-char"); }
			strcpy(m, base);
			if (m[ilen + 1] != ref_b64_abc[a]) { m[ilen + 1] = ref_b64_abc[a]; emit(p, c, m, "sig-first-char"); }
		}
	} else if (part == 2) {
		/* every truncation of the third segment */
		for (size_t k = 0; k < l3; k++) {
			memcpy(m, base, ilen + 1 + k);
			m[ilen + 1 + k] = 0;
			emit(p, c, m, "sig-truncated");
		}
		/* one-character extensions */
		for (int a = 0; a < 66; a++) {
			char ch = a < 64 ? ref_b64_abc[a] : a == 64 ? '=' : '.';
			sprintf(m, "%s%c", base, ch);
			emit(p, c, m, "sig-extended");
		}
		/* 256 and 512 more characters (alphabet, foreign and high-bit): a text comparison that loses the high bits of a
		 * length difference would take them for nothing */
		{
			static const char fill[] = { 'A', 'x', '!', (char)0x80, (char)0xff };
			for (unsigned f = 0; f < sizeof fill; f++)
				for (int n = 256; n <= 65536; n = n < 768 ? n + 256 : n == 768 ? 65536 : n + 1) {
					char *big = malloc(strlen(base) + n + 1);
					strcpy(big, base);
					memset(big + strlen(base), fill[f], n);
					big[strlen(base) + n] = 0;
					emit(p, c, big, n == 65536 ? "sig-extended-by-65536" : "sig-extended-by-multiple-of-256");
					free(big);
				}
		}
		/* a high-bit byte in place of a signature character (its low bits equal to the character, then 0x80 and 0xff) */
		for (size_t pos = 0; pos < l3 && pos < 120; pos++) {
			strcpy(m, base);
			m[ilen + 1 + pos] = (char)(seg3[pos] | 0x80); emit(p, c, m, "sig-high-bit-char");
			if (pos % 8 == 0) {
				m[ilen + 1 + pos] = (char)0x80; emit(p, c, m, "sig-high-bit-char");
				m[ilen + 1 + pos] = (char)0xff; emit(p, c, m, "sig-high-bit-char");
			}
		}
		sprintf(m, "%s==", base); emit(p, c, m, "sig-extended");
		sprintf(m, "%s=A", base); emit(p, c, m, "sig-extended");
		sprintf(m, "%s.%s", base, seg3); emit(p, c, m, "sig-doubled");
		/* zero-byte prefix / suffix, 0xff suffix */
		sig[0] = 0; memcpy(sig + 1, t.dec[2], sl); with_sig(p, c, base, ilen, sig, sl + 1, "sig-zero-prefix", emit);
		memcpy(sig, t.dec[2], sl); sig[sl] = 0; with_sig(p, c, base, ilen, sig, sl + 1, "sig-zero-suffix", emit);
		sig[sl] = 0xff; with_sig(p, c, base, ilen, sig, sl + 1, "sig-ff-suffix", emit);
		/* junk between a zero octet and the signature, and in front of it (a "sign octet" stripper must not skip unchecked octets) */
		{
			static const int junk[] = { 1, 2, 16, 64 };
			for (unsigned k = 0; k < sizeof junk / sizeof *junk; k++) {
				unsigned char *ext = malloc(sl + junk[k] + 2);
				ext[0] = 0;
				for (int q = 0; q < junk[k]; q++)
					ext[1 + q] = (unsigned char)(0xa5 ^ (q * 29));
				memcpy(ext + 1 + junk[k], t.dec[2], sl);
				with_sig(p, c, base, ilen, ext, sl + junk[k] + 1, "sig-zero-junk-prefix", emit);
				with_sig(p, c, base, ilen, ext + 1, sl + junk[k], "sig-junk-prefix", emit);
				/* ... and the mirror image: signature, junk, zero octet */
				memcpy(ext, t.dec[2], sl);
				for (int q = 0; q < junk[k]; q++)
					ext[sl + q] = (unsigned char)(0x5a ^ (q * 31));
				ext[sl + junk[k]] = 0;
				with_sig(p, c, base, ilen, ext, sl + junk[k] + 1, "sig-junk-zero-suffix", emit);
				free(ext);
			}
		}
		with_sig(p, c, base, ilen, t.dec[2], sl - 1, "sig-one-byte-short", emit);
		with_sig(p, c, base, ilen, t.dec[2] + 1, sl - 1, "sig-first-byte-dropped", emit);
		/* ECDSA: halves re-padded to the other legal widths, and stripped by one */
		if (rc_family(p->alg) == RC_FAM_ES) {
			static const int widths[] = { 31, 32, 33, 47, 48, 49, 65, 66, 67 };
			long w = sl / 2;
			for (unsigned k = 0; k < sizeof widths / sizeof *widths; k++) {
				long nw = widths[k];
				if (nw == w)
					continue;
				unsigned char buf[160];
				memset(buf, 0, sizeof buf);
				if (nw > w) {
					memcpy(buf + (nw - w), t.dec[2], w);
					memcpy(buf + nw + (nw - w), t.dec[2] + w, w);
				} else {
					memcpy(buf, t.dec[2] + (w - nw), nw);
					memcpy(buf + nw, t.dec[2] + w + (w - nw), nw);
				}
				with_sig(p, c, base, ilen, buf, 2 * nw, "ecdsa-repadded", emit);
			}
		}
		/* empty signature, single dot variants */
		memcpy(m, base, ilen + 1); m[ilen + 1] = 0; emit(p, c, m, "sig-empty");
		memcpy(m, base, ilen); m[ilen] = 0; emit(p, c, m, "sig-segment-missing");
	}
	free(m);
	free(sig);
	rt_free(&t);
}

/* class 3: header and payload */
static void mutate_content(const pair_t *p, jwt_checker_t *c, const char *base, size_t from, size_t to, emit_fn emit)
{
	char *m = strdup(base);
	for (size_t pos = from; pos < to; pos++) {
		if (base[pos] == '.')
			continue;
		for (int a = 0; a < 64; a++) {
			if (base[pos] == ref_b64_abc[a])
				continue;
			m[pos] = ref_b64_abc[a];
			emit(p, c, m, "content-char-substituted");
		}
		m[pos] = base[pos];
	}
	free(m);
}
static void mutate_content_bits(const pair_t *p, jwt_checker_t *c, const char *base, emit_fn emit)
{
	rt_t t;
	rt_parse(base, &t);
	for (int seg = 0; seg < 2; seg++)
		for (long i = 0; i < t.declen[seg]; i++)
			for (int b = 0; b < 8; b++) {
				unsigned char *d = malloc(t.declen[seg]);
				memcpy(d, t.dec[seg], t.declen[seg]);
				d[i] ^= 1 << b;
				char *e = tok_b64(d, t.declen[seg]);
				char *m = malloc(strlen(base) + 8);
				if (seg == 0)
					sprintf(m, "%s.%s.%s", e, t.seg[1], t.seg[2]);
				else
					sprintf(m, "%s.%s.%s", t.seg[0], e, t.seg[2]);
				emit(p, c, m, "content-bit-flip");
				free(m);
				free(e);
				free(d);
			}
	/* segment-level edits */
	char *m = malloc(2 * strlen(base) + 16);
	sprintf(m, "%s.%s.%s", t.seg[1], t.seg[0], t.seg[2]); emit(p, c, m, "segments-swapped");
	sprintf(m, "%s.%s.%s", t.seg[0], t.seg[0], t.seg[2]); emit(p, c, m, "payload-replaced-by-header");
	sprintf(m, "%s=.%s.%s", t.seg[0], t.seg[1], t.seg[2]); emit(p, c, m, "header-padded");
	sprintf(m, "%s.%s=.%s", t.seg[0], t.seg[1], t.seg[2]); emit(p, c, m, "payload-padded");
	sprintf(m, " %s", base); emit(p, c, m, "leading-space");
	sprintf(m, "%s ", base); emit(p, c, m, "trailing-space");
	sprintf(m, "%s\n", base); emit(p, c, m, "trailing-newline");
	free(m);
	rt_free(&t);
}

/* class 5: signature computed with algorithm Y, header says X (= pinned) */
static void mutate_cross_alg(const pair_t *p, jwt_checker_t *c, emit_fn emit)
{
	for (int y = 1; y < 15; y++) {
		if ((jwt_alg_t)y == p->alg)
			continue;
		rc_family_t fy = rc_family((jwt_alg_t)y);
		if (!p->vk && fy != RC_FAM_HS)
			continue;
		if (p->vk && fy == RC_FAM_HS)
			continue;
		char *t = ref_token(p, p->alg, (jwt_alg_t)y, PAYLOADS[0]);
		if (t) {
			emit(p, c, t, "signed-with-other-alg-header-pinned");
			free(t);
		}
		/* and the honest token of the other algorithm (header says Y) */
		t = ref_token(p, (jwt_alg_t)y, (jwt_alg_t)y, PAYLOADS[0]);
		if (t) {
			emit(p, c, t, "other-alg-token");
			free(t);
		}
	}
}

/* class 6: adversarial assemblies */
static void mutate_adversarial(const pair_t *p, jwt_checker_t *c, const char *base, emit_fn emit)
{
	rt_t t;
	rt_parse(base, &t);
	size_t ilen = t.input_len;
	unsigned char buf[1200];
	/* HMAC under attacker-computable keys, header left as pinned and header switched to HS* */
	for (int ha = JWT_ALG_HS256; ha <= JWT_ALG_HS512; ha++) {
		char hdr[64];
		snprintf(hdr, sizeof hdr, "{\"alg\":\"%s\",\"typ\":\"JWT\"}", tok_alg_names[ha]);
		char *in2 = tok_signing_input(hdr, PAYLOADS[1]);
		const unsigned char *keys[6];
		size_t klen[6];
		int nk = 0;
		unsigned char *der = NULL, raw[600];
		keys[nk] = (const unsigned char *)""; klen[nk++] = 0;
		if (p->vk) {
			keys[nk] = (const unsigned char *)p->vk->pub_pem; klen[nk++] = strlen(p->vk->pub_pem);
			int dl = i2d_PUBKEY(p->vk->pkey_pub, &der);
			if (dl > 0) { keys[nk] = der; klen[nk++] = dl; }
			BIGNUM *n = NULL;
			if (EVP_PKEY_get_bn_param(p->vk->pkey_pub, OSSL_PKEY_PARAM_RSA_N, &n)) {
				int l = BN_bn2bin(n, raw);
				keys[nk] = raw; klen[nk++] = l;
				BN_free(n);
			} else {
				size_t ol = 0;
				if (EVP_PKEY_get_octet_string_param(p->vk->pkey_pub, OSSL_PKEY_PARAM_PUB_KEY, raw, sizeof raw, &ol) && ol) {
					keys[nk] = raw; klen[nk++] = ol;
				}
			}
		}
		for (int k = 0; k < nk; k++) {
			unsigned char mac[64];
			size_t l = rc_hmac((jwt_alg_t)ha, keys[k], klen[k], in2, strlen(in2), mac);
			with_sig(p, c, in2, strlen(in2), mac, l, "hmac-attacker-key-hs-header", emit);
			l = rc_hmac((jwt_alg_t)ha, keys[k], klen[k], base, ilen, mac);
			with_sig(p, c, base, ilen, mac, l, "hmac-attacker-key-pinned-header", emit);
		}
		OPENSSL_free(der);
		free(in2);
	}
	/* alg-none downgrades: same payload, header none (and spellings), empty / garbage / original signature */
	{
		static const char *nh[] = { "{\"alg\":\"none\"}", "{\"alg\":\"none\",\"typ\":\"JWT\"}", "{\"alg\":\"None\"}", "{\"alg\":\"NONE\"}", "{\"typ\":\"JWT\"}", "{\"alg\":null}" };
		for (unsigned i = 0; i < sizeof nh / sizeof *nh; i++) {
			char *in2 = tok_signing_input(nh[i], PAYLOADS[1]);
			char *m = malloc(strlen(in2) + strlen(t.seg[2]) + 8);
			sprintf(m, "%s.", in2); emit(p, c, m, "alg-none-empty-signature");
			sprintf(m, "%s", in2); emit(p, c, m, "alg-none-two-segments");
			sprintf(m, "%s.AAAA", in2); emit(p, c, m, "alg-none-garbage-signature");
			sprintf(m, "%s.%s", in2, t.seg[2]); emit(p, c, m, "alg-none-original-signature");
			free(m);
			free(in2);
		}
		/* the original header and payload with the signature removed */
		char *m = malloc(ilen + 4);
		memcpy(m, base, ilen); m[ilen] = '.'; m[ilen + 1] = 0; emit(p, c, m, "signature-stripped");
		free(m);
	}
	long sl = t.declen[2];
	rc_family_t f = rc_family(p->alg);
	if (f == RC_FAM_ES) {
		long w = sl / 2;
		/* (0,0), (n,n), (r, n-s), (r,0), (0,s), (1,1) */
		const EC_KEY *ec = EVP_PKEY_get0_EC_KEY(p->vk->pkey_pub);
		BIGNUM *order = BN_new(), *s = BN_bin2bn(t.dec[2] + w, (int)w, NULL), *ns = BN_new();
		EC_GROUP_get_order(EC_KEY_get0_group(ec), order, NULL);
		BN_sub(ns, order, s);
		memset(buf, 0, 2 * w); with_sig(p, c, base, ilen, buf, 2 * w, "ecdsa-zero-zero", emit);
		BN_bn2binpad(order, buf, (int)w); BN_bn2binpad(order, buf + w, (int)w); with_sig(p, c, base, ilen, buf, 2 * w, "ecdsa-n-n", emit);
		memcpy(buf, t.dec[2], w); BN_bn2binpad(ns, buf + w, (int)w); with_sig(p, c, base, ilen, buf, 2 * w, "ecdsa-malleable-twin", emit);
		memcpy(buf, t.dec[2], w); memset(buf + w, 0, w); with_sig(p, c, base, ilen, buf, 2 * w, "ecdsa-r-zero", emit);
		memset(buf, 0, w); memcpy(buf + w, t.dec[2] + w, w); with_sig(p, c, base, ilen, buf, 2 * w, "ecdsa-zero-s", emit);
		memset(buf, 0, 2 * w); buf[w - 1] = 1; buf[2 * w - 1] = 1; with_sig(p, c, base, ilen, buf, 2 * w, "ecdsa-one-one", emit);
		memcpy(buf, t.dec[2] + w, w); memcpy(buf + w, t.dec[2], w); with_sig(p, c, base, ilen, buf, 2 * w, "ecdsa-halves-swapped", emit);
		/* DER in place of r||s */
		ECDSA_SIG *es = ECDSA_SIG_new();
		ECDSA_SIG_set0(es, BN_bin2bn(t.dec[2], (int)w, NULL), BN_bin2bn(t.dec[2] + w, (int)w, NULL));
		unsigned char *der = NULL;
		int dl = i2d_ECDSA_SIG(es, &der);
		if (dl > 0)
			with_sig(p, c, base, ilen, der, dl, "ecdsa-der-instead-of-raw", emit);
		OPENSSL_free(der);
		ECDSA_SIG_free(es);
		BN_free(order); BN_free(s); BN_free(ns);
	} else if (f == RC_FAM_RS || f == RC_FAM_PS) {
		BIGNUM *n = NULL, *v = BN_new();
		EVP_PKEY_get_bn_param(p->vk->pkey_pub, OSSL_PKEY_PARAM_RSA_N, &n);
		memset(buf, 0, sl); with_sig(p, c, base, ilen, buf, sl, "rsa-s-zero", emit);
		buf[sl - 1] = 1; with_sig(p, c, base, ilen, buf, sl, "rsa-s-one", emit);
		BN_sub(v, n, BN_value_one()); BN_bn2binpad(v, buf, (int)sl); with_sig(p, c, base, ilen, buf, sl, "rsa-s-n-minus-1", emit);
		BN_bn2binpad(n, buf, (int)sl); with_sig(p, c, base, ilen, buf, sl, "rsa-s-n", emit);
		/* s + n: same residue, out of range */
		BIGNUM *sv = BN_bin2bn(t.dec[2], (int)sl, NULL);
		BN_add(v, sv, n);
		int l = BN_num_bytes(v);
		BN_bn2bin(v, buf);
		with_sig(p, c, base, ilen, buf, l, "rsa-s-plus-n", emit);
		BN_free(sv); BN_free(n); BN_free(v);
		memset(buf, 0xff, sl); with_sig(p, c, base, ilen, buf, sl, "rsa-s-all-ones", emit);
	} else if (f == RC_FAM_ED) {
		memset(buf, 0, sl); with_sig(p, c, base, ilen, buf, sl, "eddsa-all-zero", emit);
		memset(buf, 0, sl); buf[0] = 1; with_sig(p, c, base, ilen, buf, sl, "eddsa-identity-point", emit);
		memcpy(buf, t.dec[2], sl); memset(buf + sl / 2, 0, sl / 2); with_sig(p, c, base, ilen, buf, sl, "eddsa-s-zero", emit);
		memset(buf, 0xff, sl); with_sig(p, c, base, ilen, buf, sl, "eddsa-all-ones", emit);
	} else {
		memset(buf, 0, sl); with_sig(p, c, base, ilen, buf, sl, "hmac-all-zero", emit);
		/* MAC of the other payload / of the header only / with a key that differs in its last byte */
		unsigned char mac[64], k2[64];
		size_t l = rc_hmac(p->alg, p->oct, p->octlen, base, strlen(t.seg[0]), mac);
		with_sig(p, c, base, ilen, mac, l, "hmac-over-header-only", emit);
		memcpy(k2, p->oct, p->octlen); k2[p->octlen - 1] ^= 1;
		l = rc_hmac(p->alg, k2, p->octlen, base, ilen, mac);
		with_sig(p, c, base, ilen, mac, l, "hmac-neighbour-key", emit);
		l = rc_hmac(p->alg, p->oct, p->octlen - 1, base, ilen, mac);
		with_sig(p, c, base, ilen, mac, l, "hmac-key-one-byte-short", emit);
	}
	rt_free(&t);
}

/* class 4: splices across the token pool */
static void mutate_splices(const pair_t *p, jwt_checker_t *c, int provider, emit_fn emit)
{
	rt_t a;
	rt_parse(p->tok_ref[0], &a);
	for (int j = 0; j < NPAIRS; j++) {
		const pair_t *q = &PAIRS[j];
		if (!pair_active(q, provider) && !(q->openssl_only && vf_thorough))
			continue;
		for (int k = 0; k < 2; k++) {
			if (q == p && k == 0)
				continue;
			const char *bs = strrchr(q->tok_ref[k], '.');
			char *m = malloc(a.input_len + strlen(bs) + 2);
			memcpy(m, p->tok_ref[0], a.input_len);
			strcpy(m + a.input_len, bs);
			emit(p, c, m, "signature-of-another-token");
			free(m);
			/* the other token as a whole against this checker */
			emit(p, c, q->tok_ref[k], "other-token-whole");
		}
	}
	rt_free(&a);
}

/* ------------------------------------------------------------------ C01 enumeration */
static char *lib_token(const pair_t *p)
{
	jwt_builder_t *b = jwt_builder_new();
	const jwk_item_t *it = jwks_item_get(p->priv, 0);
	jwt_value_t v;
	char *tok = NULL;
	if (!jwt_builder_setkey(b, jwks_item_alg(it) == JWT_ALG_NONE ? p->alg : JWT_ALG_NONE, it)) {
		jwt_set_SET_STR(&v, "sub", "alice");
		jwt_builder_claim_set(b, &v);
		tok = jwt_builder_generate(b);
	}
	jwt_builder_free(b);
	return tok;
}

static void flush_counts(void)
{
	vf_count("evaluations", n_ver);
	vf_count("accepted", n_acc);
	vf_count("accepted_mutants_confirmed_valid_by_reference", n_acc_mut);
	n_ver = n_acc = n_acc_mut = 0;
	nvio = 0;
}

static void enumerate_c01(void)
{
	int provider = (int)vf_param;
	for (int i = 0; i < NPAIRS; i++) {
		pair_t *p = &PAIRS[i];
		if (!pair_active(p, provider))
			continue;
		const char *pn = p->keyname, *an = tok_alg_names[p->alg];
		/* two base tokens: one made by the reference, one made by the library itself */
		for (int src = 0; src < 2; src++) {
			const char *sn = src ? "library-signed" : "reference-signed";
#define BASE_TOKEN() (src ? (p->tok_lib ? p->tok_lib : (rc_rng_reseed(9000 + i), p->tok_lib = lib_token(p))) : p->tok_ref[0])
			if (vf_case("%s/%s %s: base token verifies; signature bit flips", pn, an, sn)) {
				const char *base = BASE_TOKEN();
				jwt_checker_t *c = pair_checker(p);
				if (!base)
					vf_violation("library-cannot-sign", "%s/%s: jwt_builder_generate failed", pn, an);
				else {
					judge(p, c, base, "base", 1);
					mutate_signature(p, c, base, 0, emit_c01);
				}
				jwt_checker_free(c);
				vf_nontrivial_case();
				flush_counts();
			}
			for (int part = 1; part <= 2; part++)
				if (vf_case("%s/%s %s: signature %s", pn, an, sn, part == 1 ? "first/last byte and character values" : "truncations, extensions, padding, re-padding")) {
					const char *base = BASE_TOKEN();
					jwt_checker_t *c = pair_checker(p);
					if (base)
						mutate_signature(p, c, base, part, emit_c01);
					jwt_checker_free(c);
					vf_nontrivial_case();
					flush_counts();
				}
			/* header/payload character substitutions: chunks of 8 positions; quick takes a stride-8 subset of them */
			{
				const char *base0 = src ? NULL : p->tok_ref[0];
				size_t hp = 0;
				if (base0) {
					const char *d = strrchr(base0, '.');
					hp = d - base0;
				} else
					hp = 120;   /* library token: header+payload length is known only after signing; bounded below */
				for (size_t from = 0; from < hp; from += 8) {
					int take = vf_thorough || (from / 8) % 8 == 0 || from < 8;
					if (!take)
						continue;
					if (!vf_case("%s/%s %s: every character substitution at header/payload positions %zu..%zu", pn, an, sn, from, from + 7))
						continue;
					const char *base = BASE_TOKEN();
					if (base) {
						const char *d = strrchr(base, '.');
						size_t lim = d - base;
						jwt_checker_t *c = pair_checker(p);
						if (from < lim)
							mutate_content(p, c, base, from, from + 8 < lim ? from + 8 : lim, emit_c01);
						jwt_checker_free(c);
					}
					vf_nontrivial_case();
					flush_counts();
				}
			}
			if (vf_case("%s/%s %s: header/payload bit flips and segment-level edits", pn, an, sn)) {
				const char *base = BASE_TOKEN();
				jwt_checker_t *c = pair_checker(p);
				if (base)
					mutate_content_bits(p, c, base, emit_c01);
				jwt_checker_free(c);
				vf_nontrivial_case();
				flush_counts();
			}
		}
		if (vf_case("%s/%s: splices with the signatures of every other pool token", pn, an)) {
			jwt_checker_t *c = pair_checker(p);
			mutate_splices(p, c, provider, emit_c01);
			jwt_checker_free(c);
			vf_nontrivial_case();
			flush_counts();
		}
		if (vf_case("%s/%s: signatures made with every other algorithm of the family", pn, an)) {
			jwt_checker_t *c = pair_checker(p);
			rc_rng_reseed(11000 + i);
			mutate_cross_alg(p, c, emit_c01);
			jwt_checker_free(c);
			vf_nontrivial_case();
			flush_counts();
		}
		for (int how = 0; how < 4; how++)
			if (vf_case("%s/%s: adversarial assemblies, truncations and splices; checker configured by %s", pn, an,
				    how == 0 ? "setkey(alg,key)" : how == 1 ? "setkey(none,key with alg attribute)" : how == 2 ? "callback supplying the key" : "callback supplying key and alg")) {
				jwt_checker_t *c = pair_checker_how(p, how);
				judge(p, c, p->tok_ref[0], "base", 1);
				mutate_adversarial(p, c, p->tok_ref[0], emit_c01);
				mutate_signature(p, c, p->tok_ref[0], 2, emit_c01);
				if (how)
					mutate_splices(p, c, provider, emit_c01);
				jwt_checker_free(c);
				vf_nontrivial_case();
				flush_counts();
			}
		/* d = 2, every pair of the table: pairs of segment-level operations */
		if (vf_thorough) {
			rt_t t;
			rt_parse(p->tok_ref[0], &t);
			size_t l3 = strlen(t.seg[2]);
			for (size_t cut = 0; cut < l3; cut += 1) {
				if (!vf_case("%s/%s d=2: signature truncated to %zu chars, then every one-character extension / substitution of its last char", pn, an, cut))
					continue;
				jwt_checker_t *c = pair_checker(p);
				char *m = malloc(strlen(p->tok_ref[0]) + 8);
				for (int a = 0; a < 64; a++) {
					memcpy(m, p->tok_ref[0], t.input_len + 1 + cut);
					m[t.input_len + 1 + cut] = ref_b64_abc[a];
					m[t.input_len + 2 + cut] = 0;
					/* cutting the last character and appending another is the substitution of the last character: same class name */
					emit_c01(p, c, m, cut + 1 == l3 ? "sig-last-char" : "d2-truncate-then-extend");
					if (cut > 0) {
						m[t.input_len + cut] = ref_b64_abc[a];
						m[t.input_len + 1 + cut] = 0;
						emit_c01(p, c, m, "d2-truncate-then-substitute");
					}
				}
				free(m);
				jwt_checker_free(c);
				vf_nontrivial_case();
				flush_counts();
			}
			/* pairs of header character substitutions (every header position) */
			size_t hl = strlen(t.seg[0]);
			for (size_t p1 = 0; p1 < hl; p1++) {
				if (!vf_case("%s/%s d=2: header position %zu x every later header position, all character pairs from a 16-character subset", pn, an, p1))
					continue;
				static const char sub[] = "AQgw05-_BCefIJYZ";
				jwt_checker_t *c = pair_checker(p);
				char *m = strdup(p->tok_ref[0]);
				for (size_t p2 = p1 + 1; p2 < hl; p2++)
					for (int a = 0; a < 16; a++)
						for (int b = 0; b < 16; b++) {
							m[p1] = sub[a];
							m[p2] = sub[b];
							emit_c01(p, c, m, "d2-two-header-chars");
							m[p2] = p->tok_ref[0][p2];
						}
				free(m);
				jwt_checker_free(c);
				vf_nontrivial_case();
				flush_counts();
			}
			rt_free(&t);
		}
	}
	/* configurations whose key and algorithm do not go together but which setkey may take (an EC key pinned to EdDSA or to another
	 * curve's algorithm, an Ed key pinned to ES*, RSA against EC, ...): under the pinned header, every signature the key can make by
	 * its own nature -- each hash, r||s and DER for ECDSA, PKCS#1 and PSS for RSA.  None is a valid signature of that algorithm under
	 * that key unless the reference admits the key for the algorithm and verifies it. */
	static const char *mk[] = { "p256a", "p384", "p521", "k256", "ed25519a", "ed448", "rsa2048a", "rsapss2048", "rsa2050", "bp256r1", "bp384r1" };
	for (unsigned k = 0; k < sizeof mk / sizeof *mk; k++)
		for (int y = 1; y < 15; y++) {
			const vk_t *vk = vk_get(mk[k]);
			if (!vk || rc_family((jwt_alg_t)y) == RC_FAM_HS)
				continue;
			if (!vf_case("key %s pinned to %s: every signature the key can make, under a header naming %s", mk[k], tok_alg_names[y], tok_alg_names[y]))
				continue;
			char *jt = vk_jwk_text(vk, 0, NULL, NULL);
			jwk_set_t *set = jwks_create(jt);
			free(jt);
			const jwk_item_t *item = set ? jwks_item_get(set, 0) : NULL;
			jwt_checker_t *c = jwt_checker_new();
			if (item && !jwks_item_error(item) && !jwt_checker_setkey(c, (jwt_alg_t)y, item)) {
				char hdr[64];
				snprintf(hdr, sizeof hdr, "{\"alg\":\"%s\"}", tok_alg_names[y]);
				char *input = tok_signing_input(hdr, PAYLOADS[0]);
				rc_rng_reseed(12000 + k * 16 + y);
				for (int v = 0; v < rc_native_count(vk); v++) {
					unsigned char *sig;
					size_t sl;
					const char *label;
					if (rc_native_sign(vk, v, input, strlen(input), &sig, &sl, &label))
						continue;
					char *tok = tok_attach(input, sig, sl);
					int r = jwt_checker_verify(c, tok);
					n_ver++;
					vf_obs(r == 0);
					if (r == 0) {
						n_acc++;
						if (!(rc_key_admissible(vk, (jwt_alg_t)y) && rc_verify(vk, (jwt_alg_t)y, input, strlen(input), sig, sl))) {
							char key[200];
							snprintf(key, sizeof key, "accepted-without-valid-signature|key-cannot-sign-this-algorithm|%s/%s|%s", vk->crv[0] ? vk->crv : vk->kty,
								 tok_alg_names[y], jwt_get_crypto_ops());
							vf_violation(key, "%s pinned to %s [%s]: a token whose third segment is the key's %s signature is accepted: %s", mk[k], tok_alg_names[y],
								     jwt_get_crypto_ops(), label, tok);
						}
					}
					free(tok);
					free(sig);
				}
				free(input);
				vf_nontrivial_case();
			} else
				vf_obs(3);
			jwt_checker_free(c);
			jwks_free(set);
			flush_counts();
		}
	/* key rotation with certain address reuse: a checker holding the current key never accepts the retired key's tokens */
	if (provider == 0)
		rot_enumerate("accepted-without-valid-signature");
}

/* ------------------------------------------------------------------ C12 */
static long c12_pairs, c12_identical;

static void emit_c12(const pair_t *p, jwt_checker_t *c, const char *tok, const char *cls)
{
	/* same checker object, both providers: agreement is demanded where the reference calls the token not validly signed */
	jwt_set_crypto_ops("openssl");
	int ro = jwt_checker_verify(c, tok);
	jwt_set_crypto_ops("gnutls");
	int rg = jwt_checker_verify(c, tok);
	jwt_set_crypto_ops("openssl");
	n_ver += 2;
	vf_obs(vf_hash_mix(ro == 0, rg == 0));
	const char *why;
	int valid = ref_valid(p, tok, &why);
	if (!valid && (ro == 0 || rg == 0) && ref_malleable_variant(p, tok)) {
		vf_obs(4242);
		return;
	}
	if (!valid && (ro == 0 || rg == 0) && nvio++ < 40) {
		char key[96];
		snprintf(key, sizeof key, "providers|invalid-token-accepted-by-%s", ro == 0 && rg == 0 ? "both" : ro == 0 ? "openssl" : "gnutls");
		vf_violation(key, "%s/%s class %s (%s): openssl=%d gnutls=%d: %s", p->keyname, tok_alg_names[p->alg], cls, why, ro, rg, tok);
	}
	if (ro == 0)
		n_acc++;
}

static void switching_bfs(void);
static void env_values(const char *self);
static char self_path[512];

static void enumerate_c12(void)
{
	/* (a) cross matrix: sign under A, verify under B; (b) byte-identical deterministic tokens; keys are loaded once (under openssl) and used under both */
	for (int i = 0; i < NPAIRS; i++) {
		pair_t *p = &PAIRS[i];
		if (p->openssl_only || (p->thorough_only && !vf_thorough))
			continue;
		if (!vf_case("%s/%s: sign under each provider, verify under each provider, compare deterministic tokens", p->keyname, tok_alg_names[p->alg]))
			continue;
		static const char *prov[2] = { "openssl", "gnutls" };
		char *tok[2];
		/* keys loaded under the other provider must be usable under both: reload this pair's key sets under GnuTLS */
		if (i % 2 == 1) {
			char *pj = p->vk ? vk_jwk_text(p->vk, 0, p->vk->pss ? tok_alg_names[p->alg] : NULL, NULL) : vk_oct_jwk(p->oct, p->octlen, NULL, NULL);
			char *sj = p->vk ? vk_jwk_text(p->vk, 1, p->vk->pss ? tok_alg_names[p->alg] : NULL, NULL) : vk_oct_jwk(p->oct, p->octlen, NULL, NULL);
			jwt_set_crypto_ops("gnutls");
			jwk_set_t *np = jwks_create(pj), *ns = jwks_create(sj);
			jwt_set_crypto_ops("openssl");
			if (!np || !ns || jwks_item_error(jwks_item_get(np, 0)) || jwks_item_error(jwks_item_get(ns, 0)))
				vf_violation("providers|key-load-under-gnutls-fails", "%s cannot be imported while GnuTLS is the provider", p->keyname);
			else {
				jwks_free(p->pub);
				jwks_free(p->priv);
				p->pub = np;
				p->priv = ns;
			}
			free(pj);
			free(sj);
		}
		for (int a = 0; a < 2; a++) {
			jwt_set_crypto_ops(prov[a]);
			rc_rng_reseed(12000 + i);
			tok[a] = lib_token(p);
			if (!tok[a])
				vf_violation("providers|cannot-sign", "%s/%s: generate failed under %s", p->keyname, tok_alg_names[p->alg], prov[a]);
		}
		for (int a = 0; a < 2; a++)
			for (int b = 0; b < 2; b++) {
				if (!tok[a])
					continue;
				jwt_set_crypto_ops(prov[b]);
				jwt_checker_t *c = pair_checker(p);
				int r = jwt_checker_verify(c, tok[a]);
				c12_pairs++;
				vf_obs(r == 0);
				if (r)
					vf_violation("providers|cross-verification-fails", "%s/%s: token signed under %s is rejected under %s: %s", p->keyname, tok_alg_names[p->alg], prov[a],
						     prov[b], jwt_checker_error_msg(c));
				const char *why;
				if (!ref_valid(p, tok[a], &why))
					vf_violation("providers|generated-token-invalid-by-reference", "%s/%s signed under %s: %s", p->keyname, tok_alg_names[p->alg], prov[a], why);
				/* the reference-signed token too */
				r = jwt_checker_verify(c, p->tok_ref[1]);
				if (r)
					vf_violation("providers|reference-token-rejected", "%s/%s under %s: %s", p->keyname, tok_alg_names[p->alg], prov[b], jwt_checker_error_msg(c));
				jwt_checker_free(c);
			}
		rc_family_t f = rc_family(p->alg);
		if ((f == RC_FAM_HS || f == RC_FAM_RS || f == RC_FAM_ED) && tok[0] && tok[1]) {
			c12_identical++;
			if (strcmp(tok[0], tok[1]))
				vf_violation("providers|deterministic-token-differs", "%s/%s: openssl gives %s, gnutls gives %s", p->keyname, tok_alg_names[p->alg], tok[0], tok[1]);
		}
		free(tok[0]);
		free(tok[1]);
		jwt_set_crypto_ops("openssl");
		vf_nontrivial_case();
	}
	/* (c) agreement on mutants the reference calls invalid */
	for (int i = 0; i < NPAIRS; i++) {
		pair_t *p = &PAIRS[i];
		if (p->openssl_only || (p->thorough_only && !vf_thorough))
			continue;
		const char *pn = p->keyname, *an = tok_alg_names[p->alg];
		for (int part = 0; part <= 2; part++) {
			if (part == 0 && !vf_thorough && (rc_family(p->alg) == RC_FAM_RS || rc_family(p->alg) == RC_FAM_PS))
				continue;   /* quick: RSA bit flips (2048 x 2 verifications) are left to the thorough tier */
			if (!vf_case("%s/%s both providers: signature mutation part %d", pn, an, part))
				continue;
			jwt_checker_t *c = pair_checker(p);
			mutate_signature(p, c, p->tok_ref[0], part, emit_c12);
			jwt_checker_free(c);
			vf_nontrivial_case();
			flush_counts();
		}
		if (vf_case("%s/%s both providers: splices, cross-algorithm signatures, adversarial assemblies, content bit flips", pn, an)) {
			jwt_checker_t *c = pair_checker(p);
			rc_rng_reseed(13000 + i);
			mutate_splices(p, c, 1, emit_c12);
			mutate_cross_alg(p, c, emit_c12);
			mutate_adversarial(p, c, p->tok_ref[0], emit_c12);
			mutate_content_bits(p, c, p->tok_ref[0], emit_c12);
			jwt_checker_free(c);
			vf_nontrivial_case();
			flush_counts();
		}
	}
	switching_bfs();
	env_values(self_path);
	/* (f) key rotation with certain address reuse, every (sign, verify, load) provider triple */
	rot_enumerate("providers");
	vf_count("cross_verifications", c12_pairs);
	vf_count("deterministic_tokens_compared", c12_identical);
}

/* (d) provider switching: BFS over set_crypto_ops(name) / set_crypto_ops_t(id); model = exact compiled-in name/id only */
static char NAMES[400][16];
static int NNAMES;
static void add_name(const char *s)
{
	for (int i = 0; i < NNAMES; i++)
		if (!strcmp(NAMES[i], s))
			return;
	snprintf(NAMES[NNAMES++], 16, "%s", s);
}
static void name_neighbourhood(const char *base)
{
	size_t n = strlen(base);
	char b[32];
	add_name(base);
	for (size_t i = 0; i < n; i++) {
		/* deletion */
		snprintf(b, sizeof b, "%.*s%s", (int)i, base, base + i + 1); add_name(b);
		/* case flip */
		strcpy(b, base); b[i] ^= 0x20; add_name(b);
		/* substitution */
		strcpy(b, base); b[i] = 'x'; add_name(b);
	}
	for (size_t i = 0; i <= n; i++) {
		snprintf(b, sizeof b, "%.*sx%s", (int)i, base, base + i); add_name(b);
		snprintf(b, sizeof b, "%.*s %s", (int)i, base, base + i); add_name(b);
	}
}

static long sw_transitions, sw_states;
static void switching_bfs(void)
{
	name_neighbourhood("openssl");
	name_neighbourhood("gnutls");
	name_neighbourhood("mbedtls");
	add_name("");
	add_name("OPENSSL");
	add_name("GnuTLS");
	add_name("openssl\n");
	int nops = NNAMES + 15;   /* names, then ids -2..12 */
	/* model state: 0 openssl, 1 gnutls; reachable states are exactly these two: BFS closes at depth 1; histories of depth 3 are
	 * nevertheless all executed because the property is about what a call does NOT change */
	int depth = 3;
	long total = 1;
	for (int i = 0; i < depth; i++)
		total *= nops;
	sw_states = 2;
	/* exhaustive over the first two positions restricted to the exact names/ids (state-changing ops) x all ops at the last position */
	int changing[8], nch = 0;
	for (int i = 0; i < NNAMES; i++)
		if (!strcmp(NAMES[i], "openssl") || !strcmp(NAMES[i], "gnutls") || !strcmp(NAMES[i], "mbedtls") || !strcmp(NAMES[i], "Openssl"))
			changing[nch++] = i;
	changing[nch++] = NNAMES + 2 + 1;   /* id 1 = openssl */
	changing[nch++] = NNAMES + 2 + 2;   /* id 2 = gnutls */
	changing[nch++] = NNAMES + 2 + 3;   /* id 3 = mbedtls (not compiled) */
	for (int a = 0; a < nch; a++)
		for (int b = 0; b < nch; b++) {
			if (!vf_case("provider switching: [%d, %d] then every one of %d name/id operations", changing[a], changing[b], nops))
				continue;
			for (int last = 0; last < nops; last++) {
				int ops[3] = { changing[a], changing[b], last };
				int model = 0;   /* harness starts every history from openssl */
				jwt_set_crypto_ops("openssl");
				for (int k = 0; k < 3; k++) {
					int op = ops[k], rc, want_rc, newm = model;
					if (op < NNAMES) {
						if (!strcmp(NAMES[op], "openssl")) newm = 0;
						else if (!strcmp(NAMES[op], "gnutls")) newm = 1;
						want_rc = strcmp(NAMES[op], "openssl") && strcmp(NAMES[op], "gnutls");
						rc = jwt_set_crypto_ops(NAMES[op]);
					} else {
						int id = op - NNAMES - 2;
						if (id == JWT_CRYPTO_OPS_OPENSSL) newm = 0;
						else if (id == JWT_CRYPTO_OPS_GNUTLS) newm = 1;
						want_rc = !(id == JWT_CRYPTO_OPS_OPENSSL || id == JWT_CRYPTO_OPS_GNUTLS);
						rc = jwt_set_crypto_ops_t((jwt_crypto_provider_t)id);
					}
					sw_transitions++;
					model = newm;
					const char *now = jwt_get_crypto_ops();
					int nowt = jwt_get_crypto_ops_t();
					if ((rc != 0) != want_rc)
						vf_violation("switch|return-value", "op %s returned %d, model %d", op < NNAMES ? vf_esc(NAMES[op]) : "id", rc, want_rc);
					if (strcmp(now, model ? "gnutls" : "openssl") || nowt != (model ? JWT_CRYPTO_OPS_GNUTLS : JWT_CRYPTO_OPS_OPENSSL))
						vf_violation("switch|provider-differs", "after op %s (history %d,%d,%d step %d) provider is %s/%d, model %s",
							     op < NNAMES ? vf_esc(NAMES[op]) : "id", ops[0], ops[1], ops[2], k, now, nowt, model ? "gnutls" : "openssl");
					vf_obs(model);
				}
			}
			vf_nontrivial_case();
		}
	/* an exact name followed by 256 / 512 more characters is no name */
	if (vf_case("provider switching: exact names extended by 256 and 512 characters")) {
		static const char *bn[2] = { "openssl", "gnutls" };
		for (int start = 0; start < 2; start++)
			for (int b = 0; b < 2; b++)
				for (int n = 256; n <= 512; n += 256) {
					char nm[600];
					strcpy(nm, bn[b]);
					memset(nm + strlen(bn[b]), 'x', n);
					nm[strlen(bn[b]) + n] = 0;
					jwt_set_crypto_ops(bn[start]);
					int rc = jwt_set_crypto_ops(nm);
					sw_transitions++;
					vf_obs(rc);
					if (!rc || strcmp(jwt_get_crypto_ops(), bn[start]))
						vf_violation("switch|provider-differs", "%s followed by %d characters: returned %d, provider now %s (was %s)", bn[b], n, rc, jwt_get_crypto_ops(), bn[start]);
				}
		vf_nontrivial_case();
	}
	jwt_set_crypto_ops("openssl");
	vf_count("=switch_names", NNAMES);
	vf_count("=states", sw_states);
	vf_count("transitions", sw_transitions);
}

/* (e) JWT_CRYPTO at load time: spawn this binary with the variable set */
static void env_values(const char *self)
{
	static const char *vals[] = { NULL, "", "openssl", "gnutls", "mbedtls", "OPENSSL", "bogus", "gnutls ", "openssl,gnutls" };
	static const char *want[] = { "openssl", "openssl", "openssl", "gnutls", "openssl", "openssl", "openssl", "openssl", "openssl" };
	for (unsigned i = 0; i < sizeof vals / sizeof *vals; i++) {
		if (!vf_case("JWT_CRYPTO=%s at load time", vals[i] ? (*vals[i] ? vals[i] : "(empty)") : "(unset)"))
			continue;
		int fd[2];
		if (pipe(fd))
			continue;
		pid_t pid = fork();
		if (pid == 0) {
			close(fd[0]);
			dup2(fd[1], 1);
			int dn = open("/dev/null", 1);
			dup2(dn, 2);
			if (vals[i])
				setenv("JWT_CRYPTO", vals[i], 1);
			else
				unsetenv("JWT_CRYPTO");
			execl(self, self, "--print-provider", (char *)NULL);
			_exit(99);
		}
		close(fd[1]);
		char buf[64] = "";
		ssize_t n = read(fd[0], buf, sizeof buf - 1);
		if (n > 0)
			buf[n] = 0;
		close(fd[0]);
		int st;
		waitpid(pid, &st, 0);
		buf[strcspn(buf, "\n")] = 0;
		vf_obs_str(buf);
		if (strcmp(buf, want[i]))
			vf_violation("switch|JWT_CRYPTO", "JWT_CRYPTO=%s selected '%s', expected %s", vals[i] ? vals[i] : "(unset)", buf, want[i]);
		vf_nontrivial_case();
	}
	/* switching after such a start: every sequence of two operations out of {openssl, gnutls, bogus, #1, #2, #3} from every start */
	static const char *sops[] = { "openssl", "gnutls", "bogus", "#1", "#2", "#3" };
	static const int sop_target[] = { 0, 1, -1, 0, 1, -1 };   /* provider selected on success; -1 = must be refused, nothing changes */
	for (unsigned i = 0; i < sizeof vals / sizeof *vals; i++)
		for (int a = 0; a < 6; a++) {
			if (!vf_case("JWT_CRYPTO=%s at load time, then %s, then each of six switch operations", vals[i] ? (*vals[i] ? vals[i] : "(empty)") : "(unset)", sops[a]))
				continue;
			for (int b = 0; b < 6; b++) {
				int fd[2];
				if (pipe(fd))
					continue;
				pid_t pid = fork();
				if (pid == 0) {
					close(fd[0]);
					dup2(fd[1], 1);
					int dn = open("/dev/null", 1);
					dup2(dn, 2);
					if (vals[i])
						setenv("JWT_CRYPTO", vals[i], 1);
					else
						unsetenv("JWT_CRYPTO");
					execl(self, self, "--print-provider", sops[a], sops[b], (char *)NULL);
					_exit(99);
				}
				close(fd[1]);
				char buf[160] = "";
				ssize_t n = read(fd[0], buf, sizeof buf - 1);
				if (n > 0)
					buf[n] = 0;
				close(fd[0]);
				int st;
				waitpid(pid, &st, 0);
				buf[strcspn(buf, "\n")] = 0;
				/* model */
				int cur = !strcmp(want[i], "gnutls");
				char expect[160];
				size_t o = snprintf(expect, sizeof expect, "%s", want[i]);
				int seq[2] = { a, b };
				for (int k = 0; k < 2; k++) {
					int t = sop_target[seq[k]];
					if (t >= 0)
						cur = t;
					/* ... and the provider in force works (an HS256 and an ES256 round trip in the child): ":11" */
					o += snprintf(expect + o, sizeof expect - o, " %d:%s/%d:11", t < 0, cur ? "gnutls" : "openssl", cur ? JWT_CRYPTO_OPS_GNUTLS : JWT_CRYPTO_OPS_OPENSSL);
				}
				sw_transitions += 2;
				vf_obs_str(buf);
				if (strcmp(buf, expect))
					vf_violation("switch|after-JWT_CRYPTO", "JWT_CRYPTO=%s then %s then %s: got '%s', expected '%s'", vals[i] ? vals[i] : "(unset)", sops[a], sops[b], buf, expect);
			}
			vf_nontrivial_case();
		}
}

static void enumerate(void)
{
	vf_alloc_install();
	vf_alloc_track(1);
	vk_load();
	vk_load_extra();
	rc_rng_install();
	vf_now = T0;
	lj_select_provider(!strcmp(vf_prop, "C12") ? 0 : vf_param);
	setup_pairs();
	if (!strcmp(vf_prop, "C01"))
		enumerate_c01();
	else if (!strcmp(vf_prop, "C12"))
		enumerate_c12();
	else {
		fprintf(stderr, "sigmut: unknown --prop %s\n", vf_prop);
		exit(2);
	}
}

/* in the --print-provider child: does the provider in force produce a token and accept it? (0: HS256 with an oct key, 1: ES256) */
static int child_roundtrip(int ec)
{
	static const char OCTJ[] = "{\"kty\":\"oct\",\"k\":\"AAECAwQFBgcICQoLDA0ODxAREhMUFRYXGBkaGxwdHh8gISIjJCUmJygpKissLS4v\"}";
	static char *ecj;
	if (ec && !ecj) {
		vk_load();
		ecj = vk_jwk_text(vk_get("p256a"), 1, NULL, NULL);
	}
	jwk_set_t *set = jwks_create(ec ? ecj : OCTJ);
	const jwk_item_t *it = set ? jwks_item_get(set, 0) : NULL;
	int ok = 0;
	if (it && !jwks_item_error(it)) {
		jwt_builder_t *b = jwt_builder_new();
		jwt_checker_t *c = jwt_checker_new();
		if (!jwt_builder_setkey(b, ec ? JWT_ALG_ES256 : JWT_ALG_HS256, it) && !jwt_checker_setkey(c, ec ? JWT_ALG_ES256 : JWT_ALG_HS256, it)) {
			char *t = jwt_builder_generate(b);
			ok = t && jwt_checker_verify(c, t) == 0;
			free(t);
		}
		jwt_builder_free(b);
		jwt_checker_free(c);
	}
	jwks_free(set);
	return ok;
}

int main(int argc, char **argv)
{
	if (argc >= 2 && !strcmp(argv[1], "--print-provider")) {
		/* further arguments are switch operations: a name, or #id; after each, print "rc:provider" */
		printf("%s", jwt_get_crypto_ops());
		for (int i = 2; i < argc; i++) {
			int rc = argv[i][0] == '#' ? jwt_set_crypto_ops_t((jwt_crypto_provider_t)atoi(argv[i] + 1)) : jwt_set_crypto_ops(argv[i]);
			printf(" %d:%s/%d:%d%d", rc != 0, jwt_get_crypto_ops(), (int)jwt_get_crypto_ops_t(), child_roundtrip(0), child_roundtrip(1));
		}
		printf("\n");
		return 0;
	}
	ssize_t n = readlink("/proc/self/exe", self_path, sizeof self_path - 1);
	if (n > 0)
		self_path[n] = 0;
	return vf_main(argc, argv, enumerate);
}
