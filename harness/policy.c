/* C02 (algorithm pinning), C03 (unsigned tokens), C09 (key-strength floor):
 * complete enumeration of the configuration x key x header x route x signature
 * matrix against ref_policy, a pure decision function written here.          */
#include "vf.h"
#include "keys.h"
#include "tok.h"

#define NALG 16 /* JWT_ALG_NONE .. JWT_ALG_INVAL */

/* ------------------------------------------------------------------ keys of the matrix */
typedef struct {
	const char *name;
	vk_t *vk;               /* pool key, or NULL for oct */
	unsigned char oct[300];
	size_t octlen;
	int kform;              /* oct only: how k is written (KF_*) */
	int npad;               /* RSA only: leading zero octets put in front of n (and the private members) */
	const char *jwkalg;     /* C09 cells: the JWK names this algorithm itself and setkey is given JWT_ALG_NONE */
	int defect;             /* C03 builder cells: a private key the provider cannot sign with -- 1: RSA modulus made even, 2: RSA d = 0,
	                         * 3: EC d with one octet too many, 4: EC d = 0 */
} pk_t;
/* k written canonically; padded with '=' to a multiple of four; followed by "===="; followed by '=' and 80 more characters
 * (the decoder stops at the first '=': the key is still the octlen bytes ahead of it) */
enum { KF_CANON, KF_PADDED, KF_OVERPADDED, KF_EMBEDDED, NKF };
static const char *kf_name[NKF] = { "canonical k", "k padded with =", "k followed by ====", "k followed by = and 80 more characters" };

static pk_t PK[24];
static int NPK;

static void add_oct(const char *name, size_t len, const unsigned char *prefix, size_t plen)
{
	pk_t *p = &PK[NPK++];
	p->name = name;
	p->octlen = len;
	vk_oct_bytes(NPK, p->oct, len);
	if (prefix)
		memcpy(p->oct, prefix, plen);
}
static void add_pool(const char *name)
{
	pk_t *p = &PK[NPK++];
	p->name = name;
	p->vk = vk_get(name);
}

static const char *pk_kty(const pk_t *p) { return !p ? "absent" : (p->vk ? p->vk->kty : "oct"); }

static const char *fam_name(jwt_alg_t a)
{
	switch (rc_family(a)) {
	case RC_FAM_NONE: return "none";
	case RC_FAM_HS: return "HS";
	case RC_FAM_RS: return "RS";
	case RC_FAM_PS: return "PS";
	case RC_FAM_ES: return "ES";
	case RC_FAM_ED: return "Ed";
	default: return "inval";
	}
}

/* is algorithm P usable with key p by family and by the C09 size floor? 0 ok, else reason */
static const char *family_size_reason(const pk_t *p, jwt_alg_t P)
{
	rc_family_t f = rc_family(P);
	if (!p->vk) {
		if (f != RC_FAM_HS)
			return "family-mismatch";
		size_t need = P == JWT_ALG_HS256 ? 32 : P == JWT_ALG_HS384 ? 48 : 64;
		return p->octlen >= need ? NULL : "size";
	}
	if (f == RC_FAM_HS)
		return "family-mismatch";
	if ((f == RC_FAM_RS || f == RC_FAM_PS)) {
		if (strcmp(p->vk->kty, "RSA")) return "family-mismatch";
		return p->vk->bits >= 2048 ? NULL : "size";
	}
	if (f == RC_FAM_ES) {
		if (strcmp(p->vk->kty, "EC")) return "family-mismatch";
		return p->vk->bits == rc_es_bits(P) ? NULL : "size";
	}
	if (f == RC_FAM_ED) {
		if (strcmp(p->vk->kty, "OKP")) return "family-mismatch";
		return (!strcmp(p->vk->crv, "Ed25519") || !strcmp(p->vk->crv, "Ed448")) ? NULL : "size";
	}
	return "family-mismatch";
}

/* reference: is sig (raw bytes) valid under key p and algorithm P over input? */
static int ref_sig_valid(const pk_t *p, jwt_alg_t P, const char *input, size_t ilen, const unsigned char *sig, long siglen)
{
	if (siglen <= 0)
		return 0;
	if (!p->vk) {
		unsigned char mac[64];
		if (rc_family(P) != RC_FAM_HS)
			return 0;
		size_t l = rc_hmac(P, p->oct, p->octlen, input, ilen, mac);
		return l == (size_t)siglen && !memcmp(mac, sig, l);
	}
	return rc_verify(p->vk, P, input, ilen, sig, siglen);
}

/* ------------------------------------------------------------------ headers */
typedef struct {
	const char *label;     /* short name for descriptors */
	const char *json;      /* header JSON text */
	const char *alg_text;  /* alg when it is a string, else NULL */
} hd_t;

static hd_t HD[64];
static int NHD;
static char hd_store[64][96];

static void add_hd_str(const char *alg)
{
	hd_t *h = &HD[NHD];
	snprintf(hd_store[NHD], sizeof hd_store[0], "{\"alg\":\"%s\",\"typ\":\"JWT\"}", alg);
	h->label = alg;
	h->json = hd_store[NHD];
	h->alg_text = alg;
	NHD++;
}
static void add_hd_raw(const char *label, const char *json)
{
	hd_t *h = &HD[NHD++];
	h->label = label;
	h->json = json;
	h->alg_text = NULL;
}

static void init_headers(void)
{
	for (int i = 0; i < 15; i++)
		add_hd_str(tok_alg_names[i]);
	static const char *variants[] = { "hs256", "Hs256", "NONE", "None", "eddsa", "EDDSA", "rs256", "es256", "HS256x", "HS25", "", " HS256", "XS999",
					  /* what a number parser would let through between the family letters and the size */
					  "HS 256", "HS+256", "HS0256", "HS\\t256", "RS 256", "RS+256", "ES0256", "PS 256", "ES +0384", "HS256 ", "HS-256", "HS256.0", "Ed DSA", "none " };
	for (unsigned i = 0; i < sizeof variants / sizeof *variants; i++)
		add_hd_str(variants[i]);
	/* a known name followed by 256 or 512 more characters (a comparison that loses the high bits of a length difference) */
	{
		static char longhd[4][700], longlabel[4][24];
		static const char *base[4] = { "HS256", "none", "ES256", "RS256" };
		for (int i = 0; i < 4; i++) {
			char tail[520];
			int n = i % 2 ? 512 : 256;
			memset(tail, 'x', n);
			tail[n] = 0;
			snprintf(longhd[i], sizeof longhd[i], "{\"alg\":\"%s%s\",\"typ\":\"JWT\"}", base[i], tail);
			snprintf(longlabel[i], sizeof longlabel[i], "%s+%d chars", base[i], n);
			hd_t *h = &HD[NHD++];
			h->label = longlabel[i];
			h->json = longhd[i];
			h->alg_text = "XS999";   /* names no algorithm */
		}
	}
	add_hd_raw("<missing>", "{\"typ\":\"JWT\"}");
	add_hd_raw("<number>", "{\"alg\":1,\"typ\":\"JWT\"}");
	add_hd_raw("<null>", "{\"alg\":null,\"typ\":\"JWT\"}");
	add_hd_raw("<array>", "{\"alg\":[\"HS256\"],\"typ\":\"JWT\"}");
	add_hd_raw("<true>", "{\"alg\":true}");
}

/* ------------------------------------------------------------------ tokens */
enum { SK_EMPTY, SK_GARBAGE, SK_VALID, SK_HMAC_EMPTYKEY, SK_HMAC_PUBPEM, SK_NATURAL, SK_NATIVE0, NSK = SK_NATIVE0 + 6 };
/* SK_NATIVE0+v: variant v of everything the key can sign by its own nature (rc_native_sign: every hash, r||s and DER for ECDSA, PKCS#1 and
 * PSS for RSA) over the input with this header -- what a verifier that lets the key decide would take */
static const char *sk_name[NSK] = { "empty", "garbage", "valid-for-header-alg", "hmac-empty-key", "hmac-pubkey-pem", "valid-for-the-keys-own-alg-under-this-header",
				    "key-native-0", "key-native-1", "key-native-2", "key-native-3", "key-native-4", "key-native-5" };
static const char PAYLOAD[] = "{\"sub\":\"x\"}";

/* token for (key, header, sigkind) or NULL when that signature cannot be computed */
static char *make_token(const pk_t *p, const hd_t *h, int sk)
{
	char *input = tok_signing_input(h->json, PAYLOAD);
	jwt_alg_t ha = tok_alg_of(h->alg_text);
	rc_family_t hf = rc_family(ha);
	char *out = NULL;
	unsigned char mac[64];
	size_t l;
	switch (sk) {
	case SK_EMPTY:
		out = malloc(strlen(input) + 2);
		sprintf(out, "%s.", input);
		break;
	case SK_GARBAGE: {
		unsigned char g[64];
		for (int i = 0; i < 64; i++)
			g[i] = 0x41 + i;
		out = tok_attach(input, g, 64);
		break;
	}
	case SK_VALID:
		if (!p)
			break;
		if (!p->vk) {
			if (hf != RC_FAM_HS)
				break;
			l = rc_hmac(ha, p->oct, p->octlen, input, strlen(input), mac);
			out = tok_attach(input, mac, l);
		} else {
			unsigned char *sig;
			size_t sl;
			if (hf == RC_FAM_HS || hf == RC_FAM_NONE || hf == RC_FAM_INVAL)
				break;
			if (rc_sign(p->vk, ha, input, strlen(input), &sig, &sl))
				break;
			out = tok_attach(input, sig, sl);
			free(sig);
		}
		break;
	case SK_HMAC_EMPTYKEY:
		if (hf != RC_FAM_HS)
			break;
		l = rc_hmac(ha, "", 0, input, strlen(input), mac);
		out = tok_attach(input, mac, l);
		break;
	case SK_NATURAL: {
		/* a signature that is perfectly valid for the key's own family, over an input whose header names another algorithm */
		if (!p)
			break;
		jwt_alg_t nat = JWT_ALG_NONE;
		if (!p->vk)
			nat = p->octlen >= 64 ? JWT_ALG_HS512 : p->octlen >= 32 ? JWT_ALG_HS256 : JWT_ALG_NONE;
		else if (!strcmp(p->vk->kty, "RSA"))
			nat = JWT_ALG_RS256;
		else if (!strcmp(p->vk->kty, "EC"))
			nat = !strcmp(p->vk->crv, "secp256k1") ? JWT_ALG_ES256K : p->vk->bits == 384 ? JWT_ALG_ES384 : p->vk->bits == 521 ? JWT_ALG_ES512 : JWT_ALG_ES256;
		else
			nat = JWT_ALG_EDDSA;
		if (nat == JWT_ALG_NONE || nat == ha)
			break;
		if (!p->vk) {
			l = rc_hmac(nat, p->oct, p->octlen, input, strlen(input), mac);
			out = tok_attach(input, mac, l);
		} else {
			unsigned char *sig;
			size_t sl;
			if (rc_sign(p->vk, nat, input, strlen(input), &sig, &sl))
				break;
			out = tok_attach(input, sig, sl);
			free(sig);
		}
		break;
	}
	case SK_HMAC_PUBPEM:
		if (hf != RC_FAM_HS || !p || !p->vk)
			break;
		l = rc_hmac(ha, p->vk->pub_pem, strlen(p->vk->pub_pem), input, strlen(input), mac);
		out = tok_attach(input, mac, l);
		break;
	default: {
		unsigned char *sig;
		size_t sl;
		if (sk < SK_NATIVE0 || !p || !p->vk || rc_native_sign(p->vk, sk - SK_NATIVE0, input, strlen(input), &sig, &sl, NULL))
			break;
		out = tok_attach(input, sig, sl);
		free(sig);
		break;
	}
	}
	free(input);
	return out;
}

/* ------------------------------------------------------------------ JWK attribute variants */
static const char *ATTR_ALL[] = { NULL, "none", "HS256", "HS384", "HS512", "RS256", "RS384", "RS512", "ES256", "ES384", "ES512",
				  "PS256", "PS384", "PS512", "ES256K", "EdDSA", "XS999",
				  /* names of RFC 7518 section 4.1 (key management, not signatures) and near-misses of JWS names */
				  "RSA-OAEP", "RSA1_5", "A256KW", "dir", "ECDH-ES", "PBES2-HS256+A128KW", "A128GCMKW", "hs256", "Ed25519" };

static int attr_list(const pk_t *p, const char **out)
{
	int n = 0;
	if (vf_thorough) {
		for (unsigned i = 0; i < sizeof ATTR_ALL / sizeof *ATTR_ALL; i++)
			out[n++] = ATTR_ALL[i];
		return n;
	}
	/* quick: absent, matching, other-same-family, other-family, unknown */
	out[n++] = NULL;
	if (!p->vk) {
		out[n++] = "HS256"; out[n++] = "HS512"; out[n++] = "RS256"; out[n++] = "ES256";
	} else if (!strcmp(p->vk->kty, "RSA")) {
		out[n++] = "RS256"; out[n++] = "PS256"; out[n++] = "RS512"; out[n++] = "HS256";
	} else if (!strcmp(p->vk->kty, "EC")) {
		out[n++] = p->vk->bits == 384 ? "ES384" : "ES256"; out[n++] = p->vk->bits == 384 ? "ES256" : "ES384"; out[n++] = "HS256";
	} else {
		out[n++] = "EdDSA"; out[n++] = "ES256"; out[n++] = "HS256";
	}
	out[n++] = "XS999";
	/* a key-management name of RFC 7518 section 4.1: no signature algorithm either */
	out[n++] = !p->vk ? "dir" : !strcmp(p->vk->kty, "RSA") ? "RSA-OAEP" : "ECDH-ES";
	return n;
}

static jwk_set_t *load_pk(const pk_t *p, int priv, const char *attr)
{
	char *txt;
	if (p->vk && p->defect) {
		json_t *j = json_deep_copy(priv ? p->vk->priv_jwk : p->vk->pub_jwk);
		const char *mem = p->defect == 1 ? "n" : "d";
		json_t *v = json_object_get(j, mem);
		if (v) {
			unsigned char raw[1200], out[1300];
			long n = ref_b64_decode_strict(json_string_value(v), json_string_length(v), raw);
			size_t on = n;
			memcpy(out, raw, n);
			if (p->defect == 1)
				out[n - 1] &= 0xfe;
			else if (p->defect == 3) {
				out[0] = 1;
				memcpy(out + 1, raw, n);
				on = n + 1;
			} else
				memset(out, 0, n);
			char enc[2000];
			ref_b64_encode(out, on, enc);
			json_object_set_new(j, mem, json_string(enc));
		}
		if (attr)
			json_object_set_new(j, "alg", json_string(attr));
		txt = tok_jdump(j, JSON_COMPACT);
		json_decref(j);
	} else if (p->vk && p->npad) {
		/* the same key with non-minimal integers: zero octets in front of n (d, p, q as well) */
		json_t *j = json_deep_copy(priv ? p->vk->priv_jwk : p->vk->pub_jwk);
		static const char *mem[] = { "n", "d", "p", "q" };
		for (unsigned m = 0; m < sizeof mem / sizeof *mem; m++) {
			json_t *v = json_object_get(j, mem[m]);
			if (!v)
				continue;
			unsigned char raw[1200], out[1800];
			long n = ref_b64_decode_strict(json_string_value(v), json_string_length(v), raw);
			if (n <= 0)
				continue;
			memset(out, 0, p->npad);
			memcpy(out + p->npad, raw, n);
			char enc[2600];
			ref_b64_encode(out, n + p->npad, enc);
			json_object_set_new(j, mem[m], json_string(enc));
		}
		if (attr)
			json_object_set_new(j, "alg", json_string(attr));
		txt = tok_jdump(j, JSON_COMPACT);
		json_decref(j);
	} else if (p->vk)
		txt = vk_jwk_text(p->vk, priv, attr, NULL);
	else if (p->kform == KF_CANON)
		txt = vk_oct_jwk(p->oct, p->octlen, attr, NULL);
	else {
		char *k = tok_b64(p->oct, p->octlen), tail[100] = "";
		if (p->kform == KF_PADDED)
			memset(tail, '=', (4 - strlen(k) % 4) % 4);
		else if (p->kform == KF_OVERPADDED)
			strcpy(tail, "====");
		else {
			tail[0] = '=';
			memset(tail + 1, 'Q', 80);
		}
		txt = malloc(strlen(k) + 300);
		sprintf(txt, "{\"kty\":\"oct\",\"k\":\"%s%s\"%s%s%s}", k, tail, attr ? ",\"alg\":\"" : "", attr ? attr : "", attr ? "\"" : "");
		free(k);
	}
	jwk_set_t *s = jwks_create(txt);
	free(txt);
	return s;
}

/* ------------------------------------------------------------------ routes */
enum { RT_SETKEY, RT_CB_KEY_ALG, RT_CB_KEY, RT_CB_ALG, RT_SETKEY_NOOPCB, RT_SETKEY_TWICE, NRT };
static const char *rt_name[NRT] = { "setkey", "cb-sets-key+alg", "cb-sets-key-only", "setkey(none,K)+cb-sets-alg", "setkey+noop-cb", "setkey(none,first HS256 key)-then-setkey" };

struct cbctx {
	int route;
	const jwk_item_t *item;
	jwt_alg_t alg;
};

static int route_cb(jwt_t *jwt, jwt_config_t *cfg)
{
	struct cbctx *c = cfg->ctx;
	(void)jwt;
	switch (c->route) {
	case RT_CB_KEY_ALG:
		cfg->key = c->item;
		cfg->alg = c->alg;
		break;
	case RT_CB_KEY:
		cfg->key = c->item;
		break;
	case RT_CB_ALG:
		cfg->alg = c->alg;
		break;
	}
	return 0;
}

/* documented setkey table */
static int table_admits(jwt_alg_t A, int have_key, jwt_alg_t keyalg)
{
	if (!have_key)
		return A == JWT_ALG_NONE;
	if (keyalg == JWT_ALG_NONE)
		return A != JWT_ALG_NONE;
	return A == JWT_ALG_NONE || A == keyalg;
}

/* the key installed first on the "two setkey calls" route: a refused second call must leave it in force */
static pk_t FIRSTPK;
static jwk_set_t *first_set;
static void init_first(void)
{
	FIRSTPK.name = "first-oct32";
	FIRSTPK.octlen = 32;
	vk_oct_bytes(977, FIRSTPK.oct, 32);
	char *j = vk_oct_jwk(FIRSTPK.oct, 32, "HS256", "first");
	first_set = jwks_create(j);
	free(j);
}

typedef struct {
	int use_first;       /* the first key (oct, alg HS256 from its attribute) is the one in force */
	int have_key;        /* effective key present */
	jwt_alg_t A;         /* effective configured alg */
	int admitted;        /* by the table (for callback routes: post-callback check) */
	int must_fail;       /* not admitted on a callback route: the call must fail */
	int table_defined;   /* the documented table speaks about this row */
} eff_t;

/* effective configuration of a route; is_builder adds the private-key requirement */
static eff_t effective(int route, jwt_alg_t A, int have_item, jwt_alg_t keyalg, int item_private, int is_builder)
{
	eff_t e = { 0 };
	e.table_defined = A != JWT_ALG_INVAL && keyalg != JWT_ALG_INVAL;
	int priv_ok = !is_builder || !have_item || item_private;
	switch (route) {
	case RT_SETKEY:
	case RT_SETKEY_NOOPCB:
		e.admitted = table_admits(A, have_item, keyalg) && priv_ok;
		if (e.admitted) {
			e.have_key = have_item;
			e.A = A;
		} else {
			e.have_key = 0; /* refused: configuration unchanged */
			e.A = JWT_ALG_NONE;
			e.admitted = 1; /* the empty configuration is what is in force */
		}
		break;
	case RT_SETKEY_TWICE:
		e.admitted = 1;
		if (table_admits(A, have_item, keyalg) && priv_ok) {
			e.have_key = have_item;
			e.A = A;
		} else {
			e.use_first = 1;   /* refused: the earlier configuration stays */
			e.have_key = 1;
			e.A = JWT_ALG_NONE;
		}
		break;
	case RT_CB_KEY_ALG:
		e.have_key = have_item;
		e.A = A;
		e.admitted = table_admits(A, have_item, keyalg) && priv_ok;
		e.must_fail = !e.admitted;
		break;
	case RT_CB_KEY:
		e.have_key = have_item;
		e.A = JWT_ALG_NONE;
		e.admitted = table_admits(JWT_ALG_NONE, have_item, keyalg) && priv_ok;
		e.must_fail = !e.admitted;
		break;
	case RT_CB_ALG: {
		int stored = table_admits(JWT_ALG_NONE, have_item, keyalg) && priv_ok && have_item;
		e.have_key = stored;
		e.A = A;
		e.admitted = table_admits(A, stored, keyalg);
		e.must_fail = !e.admitted;
		break;
	}
	}
	return e;
}

/* ref_policy for the checker: NULL = acceptance permitted, otherwise the reason it is not */
static const char *checker_reject_reason(const eff_t *e, const pk_t *p, jwt_alg_t keyalg, const char *token, jwt_alg_t *Pout)
{
	rt_t t;
	const char *why = NULL;
	*Pout = JWT_ALG_NONE;
	if (e->must_fail)
		return "not-admitted";
	rt_parse(token, &t);
	if (t.dots < 2 || !t.head_is_object) {
		why = "malformed";
		goto out;
	}
	if (!e->have_key) {
		if (e->A != JWT_ALG_NONE)
			why = "alg-without-key";
		else if (!t.alg_text || strcmp(t.alg_text, "none"))
			why = "nokey-header-not-none";
		else if (t.seg[2][0])
			why = "nokey-signature-present";
		goto out;
	}
	jwt_alg_t P = e->A != JWT_ALG_NONE ? e->A : keyalg;
	*Pout = P;
	if (P == JWT_ALG_NONE)
		why = "pinned-none";
	else if (P >= JWT_ALG_INVAL)
		why = "pinned-inval";
	else if (!t.alg_text || strcmp(t.alg_text, tok_alg_names[P]))
		why = "header-mismatch";
	else if ((why = family_size_reason(p, P)))
		;
	else if (!ref_sig_valid(p, P, token, t.input_len, t.dec[2], t.declen[2]))
		why = "bad-sig";
out:
	rt_free(&t);
	return why;
}

static long n_accept, n_reject;

/* the algorithm the key's own "alg" member names, read by the harness from the text it wrote into the JWK (absent: none; a name that is
 * no JWS algorithm -- a misspelling, a JWE key-management name such as RSA-OAEP or dir: INVAL), not from the item the library made of it */
static const char *cell_attr;
static int cell_attr_set;
static jwt_alg_t model_keyalg(const jwk_item_t *item)
{
	if (!cell_attr_set)
		return jwks_item_alg(item);
	return cell_attr ? tok_alg_of(cell_attr) : JWT_ALG_NONE;
}

static void checker_cell(const pk_t *p, const jwk_item_t *item, jwt_alg_t A, int route, const hd_t *h, const char *token)
{
	jwt_checker_t *c = jwt_checker_new();
	struct cbctx ctx = { route, item, A };
	jwt_alg_t keyalg = item ? model_keyalg(item) : JWT_ALG_NONE;
	int setrc = 0;
	if (route == RT_SETKEY_TWICE && jwt_checker_setkey(c, JWT_ALG_NONE, jwks_item_get(first_set, 0)))
		vf_violation("harness|first-setkey-refused", "setkey(none, oct key with alg HS256) was refused");
	if (route == RT_SETKEY || route == RT_SETKEY_NOOPCB || route == RT_SETKEY_TWICE)
		setrc = jwt_checker_setkey(c, A, item);
	else if (route == RT_CB_ALG)
		setrc = jwt_checker_setkey(c, JWT_ALG_NONE, item);
	if (route != RT_SETKEY && route != RT_SETKEY_TWICE) {
		jwt_checker_setcb(c, route_cb, &ctx);
		/* in every second case the context is then handed over once more on its own -- setcb(obj, NULL, ctx) is the documented way to
		 * update the context only; the callback stays */
		if (vf_case_index() & 1)
			jwt_checker_setcb(c, NULL, &ctx);
	}
	eff_t e = effective(route, A, item != NULL, keyalg, 1, 0);
	if (e.use_first) {
		p = &FIRSTPK;
		keyalg = JWT_ALG_HS256;
	}
	/* the documented table, both directions, for the rows it defines */
	if ((route == RT_SETKEY || route == RT_SETKEY_NOOPCB) && A != JWT_ALG_INVAL && keyalg != JWT_ALG_INVAL) {
		int want = table_admits(A, item != NULL, keyalg);
		if (want && setrc)
			vf_violation("setkey-table|refused-ok-row", "setkey(%s, key alg %s) refused: %s", tok_alg_names[A],
				     item ? tok_alg_names[keyalg] : "NULL", jwt_checker_error_msg(c));
		if (!want && !setrc)
			vf_violation("setkey-table|accepted-x-row", "setkey(%s, key alg %s) accepted", tok_alg_names[A],
				     item ? tok_alg_names[keyalg] : "NULL");
	}
	int r = jwt_checker_verify(c, token);
	vf_obs(r == 0);
	if (r == 0 && !strcmp(vf_prop, "C03")) {
		/* C03 projection: only the unsigned-token clauses */
		rt_t t;
		const char *why = NULL;
		n_accept++;
		rt_parse(token, &t);
		int third_empty = t.dots < 2 || t.seg[2][0] == 0;
		int alg_none = t.alg_text && !strcmp(t.alg_text, "none");
		if (e.must_fail)
			why = "accepted-though-callback-config-inadmissible";
		else if (e.have_key && third_empty)
			why = "with-key-accepted-empty-signature";
		else if (e.have_key && alg_none)
			why = "with-key-accepted-alg-none";
		else if (!e.have_key && (t.dots < 2 || !alg_none))
			why = "without-key-accepted-alg-other-than-none";
		else if (!e.have_key && !third_empty)
			why = "without-key-accepted-nonempty-signature";
		if (why)
			vf_violation(why, "checker accepted: configured alg=%s key=%s key.alg=%s route=%s header=%s token=%s",
				     A < 15 ? tok_alg_names[A] : "INVAL", p ? p->name : "absent", keyalg < 15 ? tok_alg_names[keyalg] : "INVAL",
				     rt_name[route], h->label, token);
		else
			vf_nontrivial_case();
		rt_free(&t);
	} else if (r == 0) {
		jwt_alg_t P;
		const char *why = checker_reject_reason(&e, p, keyalg, token, &P);
		n_accept++;
		if (why) {
			char key[200];
			if (!strcmp(why, "family-mismatch") || !strcmp(why, "size"))
				snprintf(key, sizeof key, "accept|%s|%s-on-%s", why, fam_name(P), pk_kty(p));
			else
				snprintf(key, sizeof key, "accept|%s|cfg=%s%s", why, e.A != JWT_ALG_NONE ? "A" : "", keyalg != JWT_ALG_NONE ? "K" : "");
			vf_violation(key, "checker accepted: configured alg=%s key=%s key.alg=%s route=%s header=%s token=%s",
				     A < 15 ? tok_alg_names[A] : "INVAL", p ? p->name : "absent", keyalg < 15 ? tok_alg_names[keyalg] : "INVAL",
				     rt_name[route], h->label, token);
		} else
			vf_nontrivial_case();
	} else {
		n_reject++;
		if (!jwt_checker_error(c) || !jwt_checker_error_msg(c)[0])
			vf_obs(77); /* C14's business; observed only */
	}
	jwt_checker_free(c);
}

/* ------------------------------------------------------------------ builder side */
static void builder_cell(const pk_t *p, const jwk_item_t *item, jwt_alg_t A, int route)
{
	jwt_builder_t *b = jwt_builder_new();
	struct cbctx ctx = { route, item, A };
	jwt_alg_t keyalg = item ? model_keyalg(item) : JWT_ALG_NONE;
	int priv = item ? jwks_item_is_private(item) : 0;
	if (route == RT_SETKEY_TWICE)
		jwt_builder_setkey(b, JWT_ALG_NONE, jwks_item_get(first_set, 0));
	if (route == RT_SETKEY || route == RT_SETKEY_NOOPCB || route == RT_SETKEY_TWICE)
		jwt_builder_setkey(b, A, item);
	else if (route == RT_CB_ALG)
		jwt_builder_setkey(b, JWT_ALG_NONE, item);
	if (route != RT_SETKEY && route != RT_SETKEY_TWICE) {
		jwt_builder_setcb(b, route_cb, &ctx);
		if (vf_case_index() & 1)
			jwt_builder_setcb(b, NULL, &ctx);
	}
	eff_t e = effective(route, A, item != NULL, keyalg, priv, 1);
	if (e.use_first) {
		p = &FIRSTPK;
		keyalg = JWT_ALG_HS256;
	}
	char *out = jwt_builder_generate(b);
	vf_obs(out != NULL);
	if (out && !strcmp(vf_prop, "C03")) {
		rt_t t;
		const char *why = NULL;
		rt_parse(out, &t);
		int third_empty = t.dots < 2 || t.seg[2][0] == 0;
		int alg_none = t.alg_text && !strcmp(t.alg_text, "none");
		if (e.must_fail)
			why = "produced-though-callback-config-inadmissible";
		else if (e.have_key && (third_empty || alg_none))
			why = "with-key-produced-unsigned-token";
		else if (!e.have_key && (!alg_none || !third_empty || t.dots < 2))
			why = "without-key-produced-other-than-unsigned-none";
		if (why)
			vf_violation(why, "builder produced: configured alg=%s key=%s key.alg=%s route=%s token=%s",
				     A < 15 ? tok_alg_names[A] : "INVAL", p ? p->name : "absent", keyalg < 15 ? tok_alg_names[keyalg] : "INVAL",
				     rt_name[route], out);
		else
			vf_nontrivial_case();
		rt_free(&t);
		free(out);
		n_accept++;
	} else if (out) {
		rt_t t;
		const char *why = NULL;
		jwt_alg_t P = JWT_ALG_NONE;
		rt_parse(out, &t);
		if (t.dots < 2 || !t.head_is_object || !t.alg_text)
			why = "malformed-output";
		else if (e.must_fail)
			why = "not-admitted";
		else if (!e.have_key) {
			if (e.A != JWT_ALG_NONE)
				why = "alg-without-key";
			else if (strcmp(t.alg_text, "none") || t.seg[2][0])
				why = "nokey-but-signed";
		} else {
			P = e.A != JWT_ALG_NONE ? e.A : keyalg;
			if (P == JWT_ALG_NONE)
				why = "pinned-none";
			else if (P >= JWT_ALG_INVAL)
				why = "pinned-inval";
			else if (strcmp(t.alg_text, tok_alg_names[P]))
				why = "header-mismatch";
			else if ((why = family_size_reason(p, P)))
				;
			else if (!ref_sig_valid(p, P, out, t.input_len, t.dec[2], t.declen[2]))
				why = "bad-sig";
		}
		if (why) {
			char key[200];
			if (!strcmp(why, "family-mismatch") || !strcmp(why, "size"))
				snprintf(key, sizeof key, "produce|%s|%s-on-%s", why, fam_name(P), pk_kty(p));
			else
				snprintf(key, sizeof key, "produce|%s|H=%s|%s", why, t.alg_text ? fam_name(tok_alg_of(t.alg_text)) : "?",
					 route == RT_SETKEY || route == RT_SETKEY_NOOPCB ? "setkey" : "callback");
			vf_violation(key, "builder produced a token: configured alg=%s key=%s key.alg=%s route=%s token=%s",
				     A < 15 ? tok_alg_names[A] : "INVAL", p ? p->name : "absent", keyalg < 15 ? tok_alg_names[keyalg] : "INVAL",
				     rt_name[route], out);
		} else
			vf_nontrivial_case();
		rt_free(&t);
		free(out);
		n_accept++;
	} else
		n_reject++;
	jwt_builder_free(b);
}

/* ------------------------------------------------------------------ C02 enumeration */
static void init_keys_c02(void)
{
	static const unsigned char evp_ec[4] = { 0x98, 0x01, 0x00, 0x00 };      /* EVP_PKEY_EC = 408 */
	static const unsigned char evp_rsa[4] = { 0x06, 0x00, 0x00, 0x00 };     /* EVP_PKEY_RSA = 6 */
	static const unsigned char evp_pss[4] = { 0x90, 0x03, 0x00, 0x00 };     /* EVP_PKEY_RSA_PSS = 912 */
	static const unsigned char evp_ed[4] = { 0x3f, 0x04, 0x00, 0x00 };      /* EVP_PKEY_ED25519 = 1087 */
	add_oct("oct32", 32, NULL, 0);
	add_oct("oct64", 64, NULL, 0);
	add_oct("oct32-evpEC", 32, evp_ec, 4);
	add_pool("rsa2048a");
	add_pool("p256a");
	add_pool("ed25519a");
	if (vf_thorough) {
		add_oct("oct48", 48, NULL, 0);
		add_oct("oct256", 256, NULL, 0);
		add_oct("oct256-evpRSA", 256, evp_rsa, 4);
		add_oct("oct256-evpPSS", 256, evp_pss, 4);
		add_oct("oct32-evpED", 32, evp_ed, 4);
		add_oct("oct66-evpEC", 66, evp_ec, 4);
		add_pool("rsapss2048");
		add_pool("p384");
		add_pool("p521");
		add_pool("k256");
		add_pool("ed448");
	}
}

static void enumerate_c02(void)
{
	init_keys_c02();
	/* ---------- checker ---------- */
	for (int k = -1; k < NPK; k++) {
		const pk_t *p = k < 0 ? NULL : &PK[k];
		const char *attrs[32];
		int na = 1;
		attrs[0] = NULL;
		if (p)
			na = attr_list(p, attrs);
		char *tokens[64][NSK];
		memset(tokens, 0, sizeof tokens);
		int tokens_built = 0;
		for (int a = 0; a < na; a++) {
			jwk_set_t *set = p ? load_pk(p, 0, attrs[a]) : NULL;
			const jwk_item_t *item = set ? jwks_item_get(set, 0) : NULL;
			cell_attr = attrs[a];
			cell_attr_set = 1;
			if (p && (!item || jwks_item_error(item))) {
				fprintf(stderr, "policy: cannot load %s attr %s: %s\n", p->name, attrs[a] ? attrs[a] : "-", item ? jwks_item_error_msg(item) : "no item");
				exit(2);
			}
			for (int A = 0; A < NALG; A++)
				for (int route = 0; route < NRT; route++)
					for (int h = 0; h < NHD; h++)
						for (int sk = 0; sk < NSK; sk++) {
							/* signature kinds that need a key / an HS header do not exist otherwise */
							jwt_alg_t ha = tok_alg_of(HD[h].alg_text);
							rc_family_t hf = rc_family(ha);
							if (sk == SK_VALID && (!p || (p->vk ? (hf == RC_FAM_HS || hf == RC_FAM_NONE || hf == RC_FAM_INVAL) : hf != RC_FAM_HS)))
								continue;
							if (sk == SK_HMAC_EMPTYKEY && hf != RC_FAM_HS)
								continue;
							if (sk == SK_HMAC_PUBPEM && (hf != RC_FAM_HS || !p || !p->vk))
								continue;
							/* also under headers that name no algorithm at all: a lenient name parser would take them for the key's own */
							if (sk == SK_NATURAL && (!p || ha == JWT_ALG_NONE))
								continue;
							/* the key's native signatures: under every header that names a real algorithm */
							if (sk >= SK_NATIVE0 && (!p || !p->vk || sk - SK_NATIVE0 >= rc_native_count(p->vk) || ha == JWT_ALG_NONE || ha >= JWT_ALG_INVAL))
								continue;
							if (!vf_case("checker alg=%s key=%s key.alg=%s route=%s header=%s sig=%s",
								     A < 15 ? tok_alg_names[A] : "INVAL", p ? p->name : "absent",
								     attrs[a] ? attrs[a] : "-", rt_name[route], HD[h].label, sk_name[sk]))
								continue;
							if (!tokens_built) {
								rc_rng_reseed(k + 1000);
								for (int hh = 0; hh < NHD; hh++)
									for (int s = 0; s < NSK; s++)
										tokens[hh][s] = make_token(p, &HD[hh], s);
								tokens_built = 1;
							}
							if (!tokens[h][sk]) {
								vf_obs(5);
								continue;   /* reference could not sign (e.g. key/alg impossible) */
							}
							checker_cell(p, item, (jwt_alg_t)A, route, &HD[h], tokens[h][sk]);
						}
			jwks_free(set);
		}
		for (int hh = 0; hh < NHD; hh++)
			for (int s = 0; s < NSK; s++)
				free(tokens[hh][s]);
	}
	/* ---------- builder ---------- */
	for (int k = -1; k < NPK; k++) {
		const pk_t *p = k < 0 ? NULL : &PK[k];
		const char *attrs[32];
		int na = 1;
		attrs[0] = NULL;
		if (p)
			na = attr_list(p, attrs);
		for (int priv = 1; priv >= 0; priv--) {
			if (!priv && (!p || !p->vk))
				continue;
			for (int a = 0; a < na; a++) {
				jwk_set_t *set = p ? load_pk(p, priv, attrs[a]) : NULL;
				const jwk_item_t *item = set ? jwks_item_get(set, 0) : NULL;
				cell_attr = attrs[a];
				cell_attr_set = 1;
				for (int A = 0; A < NALG; A++)
					for (int route = 0; route < NRT; route++) {
						if (!vf_case("builder alg=%s key=%s(%s) key.alg=%s route=%s", A < 15 ? tok_alg_names[A] : "INVAL",
							     p ? p->name : "absent", priv ? "private" : "public", attrs[a] ? attrs[a] : "-", rt_name[route]))
							continue;
						rc_rng_reseed(vf_case_index());
						builder_cell(p, item, (jwt_alg_t)A, route);
					}
				jwks_free(set);
			}
		}
	}
	vf_count("accepted_or_produced", n_accept);
	vf_count("rejected_or_refused", n_reject);
}

/* ------------------------------------------------------------------ C03 enumeration */
static const char *matching_attr(const pk_t *p)
{
	if (!p->vk) return "HS256";
	if (!strcmp(p->vk->kty, "RSA")) return "RS256";
	if (!strcmp(p->vk->kty, "EC")) return !strcmp(p->vk->crv, "secp256k1") ? "ES256K" : p->vk->bits == 256 ? "ES256" : p->vk->bits == 384 ? "ES384" : "ES512";
	return "EdDSA";
}

static void enumerate_c03(void)
{
	add_oct("oct32", 32, NULL, 0);
	add_pool("rsa2048a");
	add_pool("p256a");
	add_pool("ed25519a");
	add_pool("k256");   /* the key one provider cannot use at all: a refusal, never an unsigned token */
	if (vf_param == 0) {
		/* private keys that import (with or without an item error) but with which signing itself fails inside the provider: the
		 * builder must report that, never hand out header.payload. -- under OpenSSL only (nettle/gmp are not safe on inconsistent RSA keys) */
		static const struct { const char *key, *name; int defect; } bad[] = {
			{ "rsa2048a", "rsa2048a-even-n", 1 }, { "rsa2048a", "rsa2048a-d-zero", 2 }, { "p256a", "p256a-d-33-octets", 3 }, { "p256a", "p256a-d-zero", 4 } };
		for (unsigned i = 0; i < sizeof bad / sizeof *bad; i++) {
			add_pool(bad[i].key);
			PK[NPK - 1].name = bad[i].name;
			PK[NPK - 1].defect = bad[i].defect;
		}
	}
	if (vf_thorough) {
		add_oct("oct64", 64, NULL, 0);
		add_pool("p384");
		add_pool("ed448");
		add_pool("rsapss2048");
	}
	static const jwt_alg_t ALGS[] = { JWT_ALG_NONE, JWT_ALG_HS256, JWT_ALG_RS256, JWT_ALG_ES256, JWT_ALG_EDDSA, JWT_ALG_PS256, JWT_ALG_ES256K, JWT_ALG_INVAL };
	/* header shapes of the unsigned-token question */
	NHD = 0;
	static const char *hs[] = { "none", "None", "NONE", "nOnE", "none ", " none", "non", "nonee", "HS256", "RS256", "ES256", "EdDSA", "" };
	for (unsigned i = 0; i < sizeof hs / sizeof *hs; i++)
		add_hd_str(hs[i]);
	add_hd_raw("<missing>", "{\"typ\":\"JWT\"}");
	add_hd_raw("<null>", "{\"alg\":null}");
	add_hd_raw("<number>", "{\"alg\":0}");
	add_hd_raw("<false>", "{\"alg\":false}");
	add_hd_raw("<empty-object>", "{}");
	static const char *tails[] = { "", ".", "..", ".AAAA", ".=", ". ", ".\t", ".%V", ".%V.", ".%V.x", ".%E", "...", ".A" };
	for (int k = -1; k < NPK; k++) {
		const pk_t *p = k < 0 ? NULL : &PK[k];
		for (int a = 0; a < (p ? 2 : 1); a++) {
			const char *attr = a ? matching_attr(p) : NULL;
			jwk_set_t *set = p ? load_pk(p, 0, attr) : NULL;
			const jwk_item_t *item = set ? jwks_item_get(set, 0) : NULL;
			cell_attr = attr;
			cell_attr_set = 1;
			char *vtok[64], *etok[64];
			int built = 0;
			for (unsigned ai = 0; ai < sizeof ALGS / sizeof *ALGS; ai++)
				for (int route = 0; route < NRT; route++)
					for (int h = 0; h < NHD; h++)
						for (unsigned t = 0; t < sizeof tails / sizeof *tails; t++) {
							jwt_alg_t A = ALGS[ai];
							if (!vf_case("checker alg=%s key=%s key.alg=%s route=%s header=%s tail='%s'",
								     A < 15 ? tok_alg_names[A] : "INVAL", p ? p->name : "absent", attr ? attr : "-",
								     rt_name[route], HD[h].label, tails[t]))
								continue;
							if (!built) {
								rc_rng_reseed(k + 2000);
								for (int hh = 0; hh < NHD; hh++) {
									vtok[hh] = make_token(p, &HD[hh], SK_VALID);
									etok[hh] = make_token(p, &HD[hh], SK_HMAC_EMPTYKEY);
								}
								built = 1;
							}
							char *input = tok_signing_input(HD[h].json, PAYLOAD);
							char *tok = NULL;
							const char *sub = strstr(tails[t], "%V") ? vtok[h] : strstr(tails[t], "%E") ? etok[h] : "";
							if (!sub) {
								vf_obs(5);
								free(input);
								continue;
							}
							const char *sigpart = *sub ? strrchr(sub, '.') + 1 : "";
							char tail[2048];
							const char *pc = strchr(tails[t], '%');
							if (pc)
								snprintf(tail, sizeof tail, "%.*s%s%s", (int)(pc - tails[t]), tails[t], sigpart, pc + 2);
							else
								snprintf(tail, sizeof tail, "%s", tails[t]);
							tok = malloc(strlen(input) + strlen(tail) + 1);
							sprintf(tok, "%s%s", input, tail);
							checker_cell(p, item, A, route, &HD[h], tok);
							free(tok);
							free(input);
						}
			if (built)
				for (int hh = 0; hh < NHD; hh++) {
					free(vtok[hh]);
					free(etok[hh]);
				}
			jwks_free(set);
		}
	}
	for (int k = -1; k < NPK; k++) {
		const pk_t *p = k < 0 ? NULL : &PK[k];
		for (int priv = 1; priv >= 0; priv--) {
			if (!priv && (!p || !p->vk))
				continue;
			for (int a = 0; a < (p ? 5 : 1); a++) {
				const char *attr = a == 1 ? matching_attr(p) : a == 2 ? "XS999" : a == 3 ? "RSA-OAEP" : a == 4 ? "dir" : NULL;
				jwk_set_t *set = p ? load_pk(p, priv, attr) : NULL;
				const jwk_item_t *item = set ? jwks_item_get(set, 0) : NULL;
				cell_attr = attr;
				cell_attr_set = 1;
				for (unsigned ai = 0; ai < sizeof ALGS / sizeof *ALGS; ai++)
					for (int route = 0; route < NRT; route++) {
						jwt_alg_t A = ALGS[ai];
						if (!vf_case("builder alg=%s key=%s(%s) key.alg=%s route=%s", A < 15 ? tok_alg_names[A] : "INVAL",
							     p ? p->name : "absent", priv ? "private" : "public", attr ? attr : "-", rt_name[route]))
							continue;
						rc_rng_reseed(vf_case_index());
						builder_cell(p, item, A, route);
					}
				jwks_free(set);
			}
		}
	}
	vf_count("accepted_or_produced", n_accept);
	vf_count("rejected_or_refused", n_reject);
}

/* ------------------------------------------------------------------ C09 enumeration */
static long n_floor_ok, n_floor_refused;

/* one (key, alg) cell: generate with the private/symmetric key, verify a reference-made token */
static void floor_cell(const pk_t *p, jwt_alg_t alg, int expect_usable, int completeness)
{
	jwk_set_t *set = load_pk(p, 1, p->jwkalg);
	const jwk_item_t *item = set ? jwks_item_get(set, 0) : NULL;
	jwt_alg_t setalg = p->jwkalg ? JWT_ALG_NONE : alg;
	if (!item) {
		vf_violation("harness|no-item", "no item for %s", p->name);
		jwks_free(set);
		return;
	}
	int item_err = jwks_item_error(item);
	vf_obs(item_err);
	/* ---- generate ---- */
	jwt_builder_t *b = jwt_builder_new();
	int src = jwt_builder_setkey(b, setalg, item);
	char *out = src ? NULL : jwt_builder_generate(b);
	vf_obs(out != NULL);
	if (out && !expect_usable)
		vf_violation(p->vk ? (!strcmp(p->vk->kty, "RSA") ? "generate-below-floor|RSA" : !strcmp(p->vk->kty, "EC") ? "generate-below-floor|EC" : "generate-below-floor|OKP") : "generate-below-floor|oct",
			     "generate succeeded with %s (%zu bits) for %s: %s", p->name, p->vk ? (size_t)p->vk->bits : p->octlen * 8, tok_alg_names[alg], out);
	if (!out && !src && (!jwt_builder_error(b) || !jwt_builder_error_msg(b)[0]))
		vf_violation("generate-null-without-error", "generate returned NULL without error for %s / %s", p->name, tok_alg_names[alg]);
	if (out && expect_usable) {
		rt_t t;
		rt_parse(out, &t);
		if (t.dots < 2 || !ref_sig_valid(p, alg, out, t.input_len, t.dec[2], t.declen[2]))
			vf_violation("generate-invalid-signature", "token generated with %s / %s does not verify by reference: %s", p->name, tok_alg_names[alg], out);
		rt_free(&t);
		n_floor_ok++;
		vf_nontrivial_case();
	}
	if (!out && expect_usable && completeness)
		vf_violation("generate-refused-at-or-above-floor", "generate failed with %s / %s: %s", p->name, tok_alg_names[alg], jwt_builder_error_msg(b));
	if (!out)
		n_floor_refused++;
	/* ---- verify a token made by the reference with this very key ---- */
	char hjson[96];
	snprintf(hjson, sizeof hjson, "{\"alg\":\"%s\",\"typ\":\"JWT\"}", tok_alg_names[alg]);
	hd_t h = { tok_alg_names[alg], hjson, tok_alg_names[alg] };
	char *tok = make_token(p, &h, SK_VALID);
	int refsigned = tok != NULL;
	if (!tok)
		tok = make_token(p, &h, SK_GARBAGE);
	jwt_checker_t *c = jwt_checker_new();
	int crc = jwt_checker_setkey(c, setalg, item);
	int r = crc ? 1 : jwt_checker_verify(c, tok);
	vf_obs(r == 0);
	if (r == 0 && !expect_usable)
		vf_violation(p->vk ? (!strcmp(p->vk->kty, "RSA") ? "verify-below-floor|RSA" : !strcmp(p->vk->kty, "EC") ? "verify-below-floor|EC" : "verify-below-floor|OKP") : "verify-below-floor|oct",
			     "verify succeeded with %s (%zu bits) for %s", p->name, p->vk ? (size_t)p->vk->bits : p->octlen * 8, tok_alg_names[alg]);
	if (r != 0 && !crc && (!jwt_checker_error(c) || !jwt_checker_error_msg(c)[0]))
		vf_violation("verify-fails-without-error", "verify returned %d without error for %s / %s", r, p->name, tok_alg_names[alg]);
	if (r != 0 && expect_usable && refsigned && completeness)
		vf_violation("verify-refused-at-or-above-floor", "verify of a reference-signed token failed with %s / %s: %s", p->name, tok_alg_names[alg], jwt_checker_error_msg(c));
	if (r == 0 && expect_usable) {
		n_floor_ok++;
		vf_nontrivial_case();
	}
	if (r != 0)
		n_floor_refused++;
	if (!expect_usable) {
		/* a signature that is valid for the key's own family, presented under this algorithm's header */
		for (int sk = SK_NATURAL; sk < NSK; sk++) {
			/* ... in every hash and encoding the key can make (r||s and DER for ECDSA, PKCS#1 and PSS for RSA) */
			char *nt = make_token(p, &h, sk);
			if (!nt)
				continue;
			int r3 = jwt_checker_verify(c, nt);
			vf_obs(r3 == 0);
			if (r3 == 0)
				vf_violation(p->vk ? (!strcmp(p->vk->kty, "RSA") ? "verify-below-floor|RSA" : !strcmp(p->vk->kty, "EC") ? "verify-below-floor|EC" : "verify-below-floor|OKP") : "verify-below-floor|oct",
					     "verify succeeded with %s for %s on a token signed with the key's own algorithm (%s)", p->name, tok_alg_names[alg], sk_name[sk]);
			free(nt);
		}
	}
	if (out) {
		/* the library must also accept its own token */
		int r2 = jwt_checker_verify(c, out);
		if (r2 != 0 && expect_usable)
			vf_violation("own-token-rejected", "library rejects the token it generated with %s / %s: %s", p->name, tok_alg_names[alg], jwt_checker_error_msg(c));
	}
	free(tok);
	free(out);
	jwt_checker_free(c);
	jwt_builder_free(b);
	jwks_free(set);
}

static void enumerate_c09(void)
{
	static const jwt_alg_t HS[] = { JWT_ALG_HS256, JWT_ALG_HS384, JWT_ALG_HS512 };
	static const jwt_alg_t RSA[] = { JWT_ALG_RS256, JWT_ALG_RS384, JWT_ALG_RS512, JWT_ALG_PS256, JWT_ALG_PS384, JWT_ALG_PS512 };
	static const jwt_alg_t ES[] = { JWT_ALG_ES256, JWT_ALG_ES256K, JWT_ALG_ES384, JWT_ALG_ES512 };
	int gnutls = vf_param == 1;
	/* oct keys of every length 1..160 (length 0 has no JWK form: an empty k is rejected at import) */
	for (int kf = 0; kf < NKF; kf++)
		for (int len = 1; len <= 160; len++)
			for (int a = 0; a < 3; a++) {
				/* a text of length 1 mod 4 is refused at import (C11): those forms have no key to judge */
				size_t klen = (len * 4 + 2) / 3, total = kf == KF_PADDED ? (klen + 3) / 4 * 4 : kf == KF_OVERPADDED ? klen + 4 : kf == KF_EMBEDDED ? klen + 81 : klen;
				if (total % 4 == 1 || (kf == KF_PADDED && klen % 4 == 0))
					continue;
				if (!vf_case("oct key of %d bytes (%s) with %s", len, kf_name[kf], tok_alg_names[HS[a]]))
					continue;
				pk_t p = { 0 };
				p.name = "oct";
				p.octlen = len;
				p.kform = kf;
				vk_oct_bytes(len, p.oct, len);
				int need = HS[a] == JWT_ALG_HS256 ? 32 : HS[a] == JWT_ALG_HS384 ? 48 : 64;
				/* completeness (a key at or above the floor works) is demanded for the canonical and the padded form only */
				floor_cell(&p, HS[a], len >= need, kf <= KF_PADDED);
				/* the same key naming the algorithm in its own "alg" member, pinned through setkey(JWT_ALG_NONE, key) */
				if (kf == KF_CANON) {
					p.jwkalg = tok_alg_names[HS[a]];
					floor_cell(&p, HS[a], len >= need, 1);
				}
			}
	static const char *rsas[] = { "rsa512", "rsa1024", "rsa1536", "rsa2047", "rsa2048a", "rsa2048b", "rsa2056", "rsa3072", "rsa4096", "rsa2048e3", "rsa2048e33", "rsapss2048" };
	for (unsigned k = 0; k < sizeof rsas / sizeof *rsas; k++)
		for (int a = 0; a < 6; a++) {
			if (!vf_case("RSA key %s with %s", rsas[k], tok_alg_names[RSA[a]]))
				continue;
			pk_t p = { 0 };
			p.name = rsas[k];
			p.vk = vk_get(rsas[k]);
			rc_rng_reseed(vf_case_index());
			/* an RSA-PSS key is restricted to PS*: no completeness demand for RS* on it; the PEM of the pool's
			 * RSA-PSS key only becomes an RSA-PSS EVP_PKEY through an alg attribute, which this JWK lacks */
			floor_cell(&p, RSA[a], p.vk->bits >= 2048, 1);
			p.jwkalg = tok_alg_names[RSA[a]];
			floor_cell(&p, RSA[a], p.vk->bits >= 2048, 1);
		}
	/* the same moduli written with leading zero octets: the size of an RSA key is the size of the number, not of its encoding */
	static const int npads[] = { 1, 2, 129 };
	for (unsigned k = 0; k < sizeof rsas / sizeof *rsas; k++)
		for (unsigned z = 0; z < sizeof npads / sizeof *npads; z++)
			for (int a = 0; a < 6; a += 3) {
				if (!vf_case("RSA key %s with %d zero octet(s) in front of n, with %s", rsas[k], npads[z], tok_alg_names[RSA[a]]))
					continue;
				pk_t p = { 0 };
				p.name = rsas[k];
				p.vk = vk_get(rsas[k]);
				p.npad = npads[z];
				rc_rng_reseed(vf_case_index());
				floor_cell(&p, RSA[a], p.vk->bits >= 2048, 1);
			}
	static const char *ecs[] = { "p256a", "p256b", "p384", "p521", "k256", "p256_x0", "p384_y0", "p521_d0", "k256_x0" };
	for (unsigned k = 0; k < sizeof ecs / sizeof *ecs; k++)
		for (int a = 0; a < 4; a++) {
			if (!vf_case("EC key %s with %s", ecs[k], tok_alg_names[ES[a]]))
				continue;
			pk_t p = { 0 };
			p.name = ecs[k];
			p.vk = vk_get(ecs[k]);
			rc_rng_reseed(vf_case_index());
			int usable = p.vk->bits == rc_es_bits(ES[a]);
			/* GnuTLS implements neither ES256K nor secp256k1 (C12 scopes them out): no completeness demand there */
			int complete = !(gnutls && (ES[a] == JWT_ALG_ES256K || !strcmp(p.vk->crv, "secp256k1")));
			floor_cell(&p, ES[a], usable, complete);
			p.jwkalg = tok_alg_names[ES[a]];
			floor_cell(&p, ES[a], usable, complete);
		}
	/* EC keys on curves outside JOSE, which the importer passes through to libcrypto by name: the size rule applies to them
	 * all the same (a 512-bit curve is not the 521-bit one ES512 demands); no completeness demand */
	vk_load_extra();
	for (int k = 0; k < vk_extra_n; k++) {
		if (strcmp(vk_extra[k].kty, "RSA"))
			continue;
		/* moduli that are not a whole number of octets, above the floor: they must work */
		for (int a = 0; a < 6; a++) {
			if (!vf_case("RSA key %s (%d bits) with %s", vk_extra[k].name, vk_extra[k].bits, tok_alg_names[RSA[a]]))
				continue;
			pk_t p = { 0 };
			p.name = vk_extra[k].name;
			p.vk = &vk_extra[k];
			rc_rng_reseed(vf_case_index());
			floor_cell(&p, RSA[a], p.vk->bits >= 2048, 1);
		}
	}
	for (int k = 0; k < vk_extra_n; k++)
		for (int a = 0; a < 4 && !strcmp(vk_extra[k].kty, "EC"); a++) {
			if (!vf_case("EC key %s (%s, %d bits) with %s", vk_extra[k].name, vk_extra[k].crv, vk_extra[k].bits, tok_alg_names[ES[a]]))
				continue;
			pk_t p = { 0 };
			p.name = vk_extra[k].name;
			p.vk = &vk_extra[k];
			rc_rng_reseed(vf_case_index());
			floor_cell(&p, ES[a], p.vk->bits == rc_es_bits(ES[a]), 0);
		}
	static const char *okps[] = { "ed25519a", "ed25519b", "ed448", "x25519" };
	for (unsigned k = 0; k < sizeof okps / sizeof *okps; k++) {
		if (!vf_case("OKP key %s with EdDSA", okps[k]))
			continue;
		pk_t p = { 0 };
		p.name = okps[k];
		p.vk = vk_get(okps[k]);
		floor_cell(&p, JWT_ALG_EDDSA, strcmp(p.vk->crv, "X25519") != 0, 1);
	}
	/* every asymmetric key against every algorithm of another family must be refused as well */
	static const char *cross[] = { "rsa2048a", "p256a", "p384", "p521", "ed25519a", "ed448" };
	for (unsigned k = 0; k < sizeof cross / sizeof *cross; k++)
		for (int alg = 1; alg < 15; alg++) {
			pk_t p = { 0 };
			p.name = cross[k];
			p.vk = vk_get(cross[k]);
			if (!family_size_reason(&p, (jwt_alg_t)alg))
				continue;
			if (!vf_case("cross-family: key %s with %s", cross[k], tok_alg_names[alg]))
				continue;
			rc_rng_reseed(vf_case_index());
			floor_cell(&p, (jwt_alg_t)alg, 0, 0);
		}
	vf_count("worked_at_or_above_floor", n_floor_ok);
	vf_count("refused", n_floor_refused);
}

static void enumerate(void)
{
	vf_alloc_install();
	vk_load();
	rc_rng_install();
	lj_select_provider(vf_param);
	init_headers();
	init_first();
	if (!strcmp(vf_prop, "C02"))
		enumerate_c02();
	else if (!strcmp(vf_prop, "C03"))
		enumerate_c03();
	else if (!strcmp(vf_prop, "C09"))
		enumerate_c09();
	else {
		fprintf(stderr, "policy: unknown --prop %s\n", vf_prop);
		exit(2);
	}
}

int main(int argc, char **argv)
{
	return vf_main(argc, argv, enumerate);
}
