/* C06 -- arbitrary token bytes: bounded-exhaustive families of token strings through five checker
 * configurations under ASan/UBSan, with block-exact leak accounting and ref_token as the
 * well-formedness oracle.                                                                  */
#include "vf.h"
#include "keys.h"
#include "tok.h"

static const time_t T0 = 1700000000;
static unsigned char K32[32];

/* the last five are configurations setkey accepts although key and algorithm do not go together (same size, other curve or
 * key type; an RSA-PSS key under RS256; a curve one provider cannot import): what they accept is C02's and C09's business,
 * here they are the way into each provider's key-import and refusal paths, which must be as clean as the accepting ones */
enum { CF_NOKEY, CF_HS, CF_RS, CF_ES, CF_ED, CF_ES384, CF_ES512, CF_ED448, CF_PS, CF_ES_K256, CF_ESK_P256, CF_ED_P256, CF_RS_PSSKEY, CF_ES_BP256, CF_NOKEY_REFUSED, CF_NOKEY_LEEWAY_MAX, NCF };
#define NCF_MATCHED CF_ES_K256
static const char *cf_name[NCF] = { "no-key", "HS256+oct32", "RS256+rsa2048", "ES256+P-256", "EdDSA+ed25519", "ES384+P-384", "ES512+P-521", "EdDSA+ed448", "PS256+rsa2048",
				    "ES256+secp256k1", "ES256K+P-256", "EdDSA+P-256", "RS256+rsa-pss-2048", "ES256+brainpoolP256r1",
				    /* a checker some of whose configuration calls were refused: expected iss set, then iss, sub and aud "set" to text that is not UTF-8 */
				    "no-key, after refused claim_set calls",
				    /* the largest leeways the API takes: clock plus leeway does not fit the type */
				    "no-key, time_leeway(EXP, LONG_MAX) and time_leeway(NBF, LONG_MAX)" };
static jwk_set_t *cf_set[NCF];
static jwt_checker_t *cf_chk[NCF];
static char *VALID[NCF];       /* one valid token per configuration */

static void setup(void)
{
	vk_oct_bytes(31, K32, 32);
	char *t;
	t = vk_oct_jwk(K32, 32, NULL, NULL); cf_set[CF_HS] = jwks_create(t); free(t);
	t = vk_jwk_text(vk_get("rsa2048a"), 0, NULL, NULL); cf_set[CF_RS] = jwks_create(t); free(t);
	t = vk_jwk_text(vk_get("p256a"), 0, NULL, NULL); cf_set[CF_ES] = jwks_create(t); free(t);
	t = vk_jwk_text(vk_get("ed25519a"), 0, NULL, NULL); cf_set[CF_ED] = jwks_create(t); free(t);
	t = vk_jwk_text(vk_get("p384"), 0, NULL, NULL); cf_set[CF_ES384] = jwks_create(t); free(t);
	t = vk_jwk_text(vk_get("p521"), 0, NULL, NULL); cf_set[CF_ES512] = jwks_create(t); free(t);
	t = vk_jwk_text(vk_get("ed448"), 0, NULL, NULL); cf_set[CF_ED448] = jwks_create(t); free(t);
	t = vk_jwk_text(vk_get("rsa2048a"), 0, NULL, NULL); cf_set[CF_PS] = jwks_create(t); free(t);
	t = vk_jwk_text(vk_get("k256"), 0, NULL, NULL); cf_set[CF_ES_K256] = jwks_create(t); free(t);
	t = vk_jwk_text(vk_get("p256a"), 0, NULL, NULL); cf_set[CF_ESK_P256] = jwks_create(t); free(t);
	t = vk_jwk_text(vk_get("p256a"), 0, NULL, NULL); cf_set[CF_ED_P256] = jwks_create(t); free(t);
	t = vk_jwk_text(vk_get("rsapss2048"), 0, NULL, NULL); cf_set[CF_RS_PSSKEY] = jwks_create(t); free(t);
	t = vk_jwk_text(vk_get("bp256r1"), 0, NULL, NULL); cf_set[CF_ES_BP256] = jwks_create(t); free(t);
	static const jwt_alg_t algs[NCF] = { JWT_ALG_NONE, JWT_ALG_HS256, JWT_ALG_RS256, JWT_ALG_ES256, JWT_ALG_EDDSA, JWT_ALG_ES384, JWT_ALG_ES512, JWT_ALG_EDDSA, JWT_ALG_PS256,
					     JWT_ALG_ES256, JWT_ALG_ES256K, JWT_ALG_EDDSA, JWT_ALG_RS256, JWT_ALG_ES256, JWT_ALG_NONE, JWT_ALG_NONE };
	static const char *keyn[NCF] = { NULL, NULL, "rsa2048a", "p256a", "ed25519a", "p384", "p521", "ed448", "rsa2048a", "k256", "p256a", "p256a", "rsapss2048", "bp256r1", NULL, NULL };
	rc_rng_reseed(606);
	for (int c = 0; c < NCF; c++) {
		cf_chk[c] = jwt_checker_new();
		if (c && c != CF_NOKEY_REFUSED && c != CF_NOKEY_LEEWAY_MAX && jwt_checker_setkey(cf_chk[c], algs[c], jwks_item_get(cf_set[c], 0))) {
			fprintf(stderr, "parse: setkey failed for %s\n", cf_name[c]);
			exit(2);
		}
		if (c == CF_NOKEY_REFUSED) {
			jwt_checker_claim_set(cf_chk[c], JWT_CLAIM_ISS, "i");
			int r1 = jwt_checker_claim_set(cf_chk[c], JWT_CLAIM_ISS, "\xff\xfe"), r2 = jwt_checker_claim_set(cf_chk[c], JWT_CLAIM_SUB, "\xc3\x28"),
			    r3 = jwt_checker_claim_set(cf_chk[c], JWT_CLAIM_AUD, "a\x80");
			if (!r1 || !r2 || !r3)
				vf_note("claim_set with text that is not UTF-8 was accepted (%d %d %d)", r1, r2, r3);
			jwt_checker_error_clear(cf_chk[c]);
		}
		if (c == CF_NOKEY_LEEWAY_MAX) {
			jwt_checker_time_leeway(cf_chk[c], JWT_CLAIM_EXP, LONG_MAX);
			jwt_checker_time_leeway(cf_chk[c], JWT_CLAIM_NBF, LONG_MAX);
		}
		char hdr[64];
		snprintf(hdr, sizeof hdr, "{\"alg\":\"%s\"}", tok_alg_names[algs[c]]);
		char *input = tok_signing_input(hdr, c == CF_NOKEY_REFUSED ? "{\"iss\":\"i\",\"sub\":\"x\",\"aud\":\"a\"}" :
						     c == CF_NOKEY_LEEWAY_MAX ? "{\"exp\":5,\"nbf\":99999999999}" : "{\"sub\":\"x\",\"n\":[1,2]}");
		if (c == CF_NOKEY || c == CF_NOKEY_REFUSED || c == CF_NOKEY_LEEWAY_MAX) {
			VALID[c] = malloc(strlen(input) + 2);
			sprintf(VALID[c], "%s.", input);
		} else if (c == CF_HS) {
			unsigned char mac[64];
			size_t l = rc_hmac(JWT_ALG_HS256, K32, 32, input, strlen(input), mac);
			VALID[c] = tok_attach(input, mac, l);
		} else {
			unsigned char *sig;
			size_t sl;
			if (rc_sign(vk_get(keyn[c]), algs[c], input, strlen(input), &sig, &sl))
				rc_sign(vk_get(keyn[c]), JWT_ALG_ES256, input, strlen(input), &sig, &sl);   /* EdDSA+P-256: what the key can make */
			VALID[c] = tok_attach(input, sig, sl);
			free(sig);
		}
		free(input);
		/* (for the mismatched configurations VALID is only a token that reaches the provider; whether it is accepted is not asked here) */
		if (c < NCF_MATCHED && jwt_checker_verify(cf_chk[c], VALID[c])) {
			fprintf(stderr, "parse: the valid token for %s is rejected: %s\n", cf_name[c], jwt_checker_error_msg(cf_chk[c]));
			exit(2);
		}
	}
}

static long n_verify, n_accept, n_wellformed, n_leakchk;
static int nv;

/* why must this string be rejected according to C06 (NULL = no demand) */
static const char *must_reject(const char *tok)
{
	rt_t t;
	const char *why = NULL;
	rt_parse(tok, &t);
	if (t.dots < 2) why = "lacks-two-dots";
	else if (t.declen[0] <= 0) why = "header-does-not-decode";
	else if (!t.head) why = "header-not-json";
	else if (!t.head_is_object) why = "header-not-an-object";
	else if (!t.alg_text) why = "alg-missing-or-not-a-string";
	else if (t.alg >= JWT_ALG_INVAL) why = "alg-unknown";
	else if (t.declen[1] <= 0) why = "payload-does-not-decode";
	else if (!t.payload) why = "payload-not-json";
	rt_free(&t);
	return why;
}

/* verify tok on configuration cf and judge */
static void probe(int cf, const char *tok)
{
	jwt_checker_t *c = cf_chk[cf];
	long live0 = vk_live(), heap0 = vf_heap_live();
	int r = jwt_checker_verify(c, tok);
	long live1 = vk_live(), heap1 = vf_heap_live();
	n_verify++;
	if (heap1 > heap0 && live1 == live0) {
		/* the process heap as a whole (GnuTLS, nettle and gmp allocate outside both accounted allocators): a leak grows it on every
		 * call, a table filled on first use or the 16-entry error ring of libcrypto stops growing */
		n_leakchk++;
		long h = heap1, grew = 0;
		for (int i = 0; i < 40; i++) {
			jwt_checker_verify(c, tok);
			ERR_clear_error();
			long h2 = vf_heap_live();
			grew += h2 > h;
			h = h2;
		}
		if (grew == 40 && nv++ < 30)
			vf_violation("leak|process-heap", "config %s: every verify leaves %ld more block(s) on the process heap (none of them from jwt_set_alloc or libcrypto) on %s",
				     cf_name[cf], (h - heap1) / 40, vf_esc(tok));
	}
	if (live1 != live0) {
		/* confirm: a leak repeats on every call, a cache fill inside libcrypto does not */
		n_leakchk++;
		jwt_checker_verify(c, tok);
		long live2 = vk_live();
		jwt_checker_verify(c, tok);
		long live3 = vk_live();
		if (live2 != live1 && live3 != live2 && nv++ < 30)
			vf_violation("leak", "config %s: verify leaks %ld block(s) per call on %s", cf_name[cf], live3 - live2, vf_esc(tok));
	}
	if ((r != 0) != (jwt_checker_error(c) != 0))
		vf_obs(777);  /* C14's business */
	if (r == 0) {
		n_accept++;
		const char *why = must_reject(tok);
		if (why) {
			char key[96];
			snprintf(key, sizeof key, "accepts-malformed|%s", why);
			if (nv++ < 30)
				vf_violation(key, "config %s accepted %s", cf_name[cf], vf_esc(tok));
		} else
			n_wellformed++;
	}
	vf_obs(r == 0);
}

static void probe_all(const char *tok)
{
	for (int c = 0; c < NCF; c++)
		probe(c, tok);
}

static void flush(void)
{
	vf_count("evaluations", n_verify);
	vf_count("accepted", n_accept);
	vf_count("nontrivial", n_wellformed);
	vf_count("leak_rechecks", n_leakchk);
	n_verify = n_accept = n_wellformed = n_leakchk = 0;
	nv = 0;
}

/* ------------------------------------------------------------------ fragment pools */
static char *POOL1[128], *POOL2[128], *POOL3[96];
static const char *LBL1[128], *LBL2[128], *LBL3[96];
static int N1, N2, N3;

static char *b64n(const void *p, size_t n) { return tok_b64(p, n); }
static char *b64s(const char *s) { return tok_b64(s, strlen(s)); }
#define B64L(lit) b64n(lit, sizeof(lit) - 1)
static char *big_json(size_t n, int header)
{
	char *j = malloc(n + 64);
	size_t o = sprintf(j, header ? "{\"alg\":\"none\",\"pad\":\"" : "{\"pad\":\"");
	while (o < n)
		j[o++] = 'x';
	strcpy(j + o, "\"}");
	char *r = b64s(j);
	free(j);
	return r;
}
static char *nested(int depth)
{
	char *j = malloc(2 * depth + 32);
	size_t o = 0;
	for (int i = 0; i < depth; i++)
		j[o++] = '[';
	for (int i = 0; i < depth; i++)
		j[o++] = ']';
	j[o] = 0;
	char *r = b64s(j);
	free(j);
	return r;
}

static void add1(const char *l, char *s) { LBL1[N1] = l; POOL1[N1++] = s; }
static void add2(const char *l, char *s) { LBL2[N2] = l; POOL2[N2++] = s; }
static void add3(const char *l, char *s) { LBL3[N3] = l; POOL3[N3++] = s; }

static void mutate_variants(void (*add)(const char *, char *), const char *base)
{
	size_t n = strlen(base);
	char *s;
	s = strdup(base); s[n - 1] = 0; add("valid minus 1 char", s);
	s = strdup(base); s[n - 2] = 0; add("valid minus 2 chars", s);
	s = strdup(base); s[n - 3] = 0; add("valid minus 3 chars", s);
	s = malloc(n + 4); sprintf(s, "%s=", base); add("valid plus '='", s);
	s = malloc(n + 4); sprintf(s, "%s==", base); add("valid plus '=='", s);
	s = malloc(n + 4); sprintf(s, "=%s", base); add("'=' first", s);
	s = strdup(base); s[n / 2] = '='; add("'=' in the middle", s);
	s = strdup(base); s[0] = '!'; add("foreign byte first", s);
	s = strdup(base); s[n / 2] = '!'; add("foreign byte middle", s);
	s = strdup(base); s[n - 1] = '!'; add("foreign byte last", s);
	s = strdup(base); s[n / 2] = (char)0x80; add("high-bit byte middle", s);
	s = strdup(base); s[1] = ' '; add("space inside", s);
	s = malloc(n + 4); sprintf(s, "%s\n", base); add("newline appended", s);
	s = strdup(base); s[n - 1] = s[n - 1] == 'A' ? 'B' : 'A'; add("last char changed", s);
}

static void pools(void)
{
	add1("{\"alg\":\"none\"}", b64s("{\"alg\":\"none\"}"));
	add1("{\"alg\":\"HS256\"}", b64s("{\"alg\":\"HS256\"}"));
	add1("{\"alg\":\"ES256\"}", b64s("{\"alg\":\"ES256\"}"));
	add1("{\"alg\":\"RS256\"}", b64s("{\"alg\":\"RS256\"}"));
	add1("{\"alg\":\"EdDSA\"}", b64s("{\"alg\":\"EdDSA\"}"));
	add1("{\"alg\":\"HS256\",\"typ\":\"JWT\"}", b64s("{\"alg\":\"HS256\",\"typ\":\"JWT\"}"));
	mutate_variants(add1, POOL1[1]);
	add1("empty", strdup(""));
	add1("not JSON", b64s("foo"));
	add1("JSON array", b64s("[{\"alg\":\"none\"}]"));
	add1("JSON scalar", b64s("5"));
	add1("JSON string", b64s("\"none\""));
	add1("alg number", b64s("{\"alg\":1}"));
	add1("alg null", b64s("{\"alg\":null}"));
	add1("alg array", b64s("{\"alg\":[\"none\"]}"));
	add1("alg unknown", b64s("{\"alg\":\"XS999\"}"));
	add1("alg empty", b64s("{\"alg\":\"\"}"));
	add1("alg lowercase", b64s("{\"alg\":\"hs256\"}"));
	add1("no alg", b64s("{\"typ\":\"JWT\"}"));
	add1("empty object", b64s("{}"));
	add1("header NUL then second object", B64L("{\"alg\":\"none\"}\0{\"alg\":\"HS256\"}"));
	add1("header HS256 NUL then garbage", B64L("{\"alg\":\"HS256\"}\0garbage"));
	add1("header then trailing garbage", b64s("{\"alg\":\"none\"}x"));
	add1("header with whitespace", b64s(" \n{\"alg\" : \"none\"}\t "));
	add1("duplicate alg", b64s("{\"alg\":\"none\",\"alg\":\"HS256\"}"));
	add1("alg with escaped NUL", b64s("{\"alg\":\"none\\u0000\"}"));
	add1("alg escaped spelling", b64s("{\"alg\":\"n\\u006fne\"}"));
	add1("64 KiB header", big_json(65536, 1));
	add1("deeply nested", nested(3000));
	add1("truncated JSON", b64s("{\"alg\":\"none\""));
	add1("invalid UTF-8", B64L("{\"alg\":\"none\",\"x\":\"\xff\"}"));
	{
		/* a known algorithm name followed by 256 / 512 more characters names no algorithm */
		static const char *nm[] = { "none", "HS256" };
		for (int i = 0; i < 2; i++)
			for (int n = 256; n <= 512; n += 256) {
				char *j = malloc(700);
				int o = sprintf(j, "{\"alg\":\"%s", nm[i]);
				memset(j + o, 'x', n);
				strcpy(j + o + n, "\"}");
				add1(n == 256 ? (i ? "alg HS256 + 256 chars" : "alg none + 256 chars") : (i ? "alg HS256 + 512 chars" : "alg none + 512 chars"), b64s(j));
				free(j);
			}
	}
	{
		/* long segments that do not decode: foreign byte, all padding, 1 mod 4 */
		char *s;
		s = malloc(700); memset(s, 'e', 600); s[300] = '!'; s[600] = 0; add1("600 chars with a foreign byte", s);
		s = malloc(700); memset(s, '=', 512); s[512] = 0; add1("512 '=' characters", s);
		s = malloc(700); memset(s, 'e', 601); s[601] = 0; add1("601 chars (1 mod 4)", s);
		s = malloc(5000); memset(s, 'e', 4100); s[4099] = (char)0x80; s[4100] = 0; add1("4100 chars ending in a high-bit byte", s);
	}

	add2("{}", b64s("{}"));
	add2("{\"a\":1}", b64s("{\"a\":1}"));
	add2("claims", b64s("{\"iss\":\"i\",\"exp\":99999999999,\"nbf\":1}"));
	mutate_variants(add2, POOL2[2]);
	add2("empty", strdup(""));
	add2("not JSON", b64s("foo"));
	add2("array", b64s("[1]"));
	add2("empty array", b64s("[]"));
	add2("scalar", b64s("5"));
	add2("string", b64s("\"s\""));
	add2("null", b64s("null"));
	add2("object NUL garbage", B64L("{\"a\":1}\0garbage"));
	add2("object trailing garbage", b64s("{}x"));
	add2("exp string", b64s("{\"exp\":\"x\"}"));
	add2("exp huge", b64s("{\"exp\":123456789012345678901234567890}"));
	add2("exp float", b64s("{\"exp\":1e400}"));
	add2("64 KiB payload", big_json(65536, 0));
	add2("deeply nested", nested(3000));
	add2("invalid UTF-8", B64L("{\"x\":\"\xc3\x28\"}"));
	add2("escaped NUL", b64s("{\"x\":\"a\\u0000b\"}"));
	{
		char *s;
		s = malloc(700); memset(s, 'e', 600); s[10] = '!'; s[600] = 0; add2("600 chars with a foreign byte", s);
		s = malloc(700); memset(s, '=', 600); s[600] = 0; add2("600 '=' characters", s);
		s = malloc(5000); memset(s, 'A', 4097); s[4097] = 0; add2("4097 chars (1 mod 4)", s);
	}

	add3("empty", strdup(""));
	add3("A", strdup("A"));
	add3("AA", strdup("AA"));
	add3("AAA", strdup("AAA"));
	add3("AAAA", strdup("AAAA"));
	add3("=", strdup("="));
	add3("====", strdup("===="));
	add3("!!!!", strdup("!!!!"));
	add3("AAAA.AAAA", strdup("AAAA.AAAA"));
	add3(".", strdup("."));
	{
		char *s;
		s = malloc(400); memset(s, 'Q', 43); s[43] = 0; add3("43 chars (HS256 length)", s);
		s = malloc(400); memset(s, 'Q', 86); s[86] = 0; add3("86 chars (ES256/EdDSA length)", s);
		s = malloc(400); memset(s, 'Q', 342); s[342] = 0; add3("342 chars (RS256 length)", s);
		s = malloc(400); memset(s, 'Q', 85); s[85] = 0; add3("85 chars (1 mod 4)", s);
		s = malloc(70000); memset(s, 'Q', 65536); s[65536] = 0; add3("64 KiB signature", s);
		s = malloc(400); memset(s, 'Q', 86); s[40] = (char)0x80; s[86] = 0; add3("86 chars with a high-bit byte", s);
		s = malloc(400); memset(s, 'Q', 86); s[86] = '='; s[87] = '='; s[88] = 0; add3("86 chars plus '=='", s);
		s = malloc(700); memset(s, 'Q', 600); s[599] = '!'; s[600] = 0; add3("600 chars with a foreign byte", s);
		s = malloc(700); memset(s, '=', 600); s[600] = 0; add3("600 '=' characters", s);
		s = malloc(5000); memset(s, 'Q', 4101); s[2000] = ' '; s[4101] = 0; add3("4101 chars with a space", s);
	}
	LBL3[N3] = "correct HS256 MAC of this header.payload";
	POOL3[N3++] = NULL;   /* computed per product cell */
}

/* ------------------------------------------------------------------ enumeration */
static void enumerate(void)
{
	int guard = vf_param >= 2;
	if (guard)
		vf_alloc_guard(1);   /* before the first library allocation: every block gets a guard page */
	vf_alloc_install();
	vf_alloc_track(1);
	vk_load();
	rc_rng_install();
	lj_select_provider(vf_param & 1);
	vf_now = T0;
	vk_load_extra();
	vf_heap_live();
	setup();
	pools();

	/* (a) the full product of the fragment pools, every configuration */
	for (int i = 0; i < N1; i++) {
		if (!vf_case("product: header fragment '%s' x %d payload fragments x %d signature fragments x %d configurations", LBL1[i], N2, N3, NCF))
			continue;
		for (int j = 0; j < N2; j++)
			for (int k = 0; k < N3; k++) {
				/* guard-page mode: the multi-kilobyte fragments (thousands of page mappings per parse) stay with the ASan runs */
				if (guard && (strlen(POOL1[i]) > 2000 || strlen(POOL2[j]) > 2000 || (POOL3[k] && strlen(POOL3[k]) > 2000)))
					continue;
				size_t n = strlen(POOL1[i]) + strlen(POOL2[j]) + 70000;
				char *tok = malloc(n);
				if (POOL3[k])
					snprintf(tok, n, "%s.%s.%s", POOL1[i], POOL2[j], POOL3[k]);
				else {
					unsigned char mac[64];
					char *m;
					snprintf(tok, n, "%s.%s", POOL1[i], POOL2[j]);
					size_t l = rc_hmac(JWT_ALG_HS256, K32, 32, tok, strlen(tok), mac);
					m = tok_b64(mac, l);
					strcat(tok, ".");
					strcat(tok, m);
					free(m);
				}
				probe_all(tok);
				free(tok);
			}
		flush();
	}
	/* two-segment and four-segment assemblies of the same fragments */
	for (int i = 0; i < N1; i++) {
		if (!vf_case("assemblies without / with extra dots: header fragment '%s'", LBL1[i]))
			continue;
		for (int j = 0; j < N2; j++) {
			if (guard && (strlen(POOL1[i]) > 2000 || strlen(POOL2[j]) > 2000))
				continue;
			size_t n = strlen(POOL1[i]) + strlen(POOL2[j]) + 32;
			char *tok = malloc(n);
			snprintf(tok, n, "%s.%s", POOL1[i], POOL2[j]); probe_all(tok);
			snprintf(tok, n, "%s%s", POOL1[i], POOL2[j]); probe_all(tok);
			snprintf(tok, n, "%s..%s.", POOL1[i], POOL2[j]); probe_all(tok);
			snprintf(tok, n, ".%s.%s.", POOL1[i], POOL2[j]); probe_all(tok);
			snprintf(tok, n, "%s.%s..", POOL1[i], POOL2[j]); probe_all(tok);
			free(tok);
		}
		flush();
	}
	/* (b) the complete d=1 byte neighbourhood of one valid token per configuration */
	for (int c = 0; c < NCF; c++) {
		size_t n = strlen(VALID[c]);
		int stride = vf_thorough && !guard ? 1 : (c == CF_RS || c == CF_PS ? 6 : 2) * (guard ? 4 : 1);
		for (size_t pos = 0; pos <= n; pos++) {
			if (stride > 1 && pos % stride && pos + 8 < n && pos > 8)
				continue;   /* quick: every stride-th position plus both ends */
			if (!vf_case("d=1 neighbourhood of the valid %s token (%zu chars): position %zu, every byte substituted / inserted, deletion, truncation", cf_name[c], n, pos))
				continue;
			char *m = malloc(n + 4);
			int cfs[2] = { c, CF_NOKEY };
			for (int b = 1; b < 256; b++) {
				if (pos < n && (unsigned char)VALID[c][pos] != b) {
					memcpy(m, VALID[c], n + 1);
					m[pos] = (char)b;
					for (int q = 0; q < (c == CF_NOKEY ? 1 : 2); q++)
						probe(cfs[q], m);
				}
				memcpy(m, VALID[c], pos);
				m[pos] = (char)b;
				memcpy(m + pos + 1, VALID[c] + pos, n - pos + 1);
				for (int q = 0; q < (c == CF_NOKEY ? 1 : 2); q++)
					probe(cfs[q], m);
			}
			if (pos < n) {
				memcpy(m, VALID[c], pos);
				memcpy(m + pos, VALID[c] + pos + 1, n - pos);
				probe(c, m);
			}
			memcpy(m, VALID[c], pos);
			m[pos] = 0;
			probe(c, m);
			free(m);
			flush();
		}
	}
	/* (b2) d=2: every pair of positions of the valid unsigned and HS256 tokens x every pair from a structural alphabet */
	if (vf_thorough && !guard)
		for (int c = 0; c <= CF_HS; c++) {
			static const char SA[] = { '.', '=', 'A', '-', (char)0x80, '!' };
			size_t n = strlen(VALID[c]);
			for (size_t p1 = 0; p1 < n; p1++) {
				if (!vf_case("d=2 neighbourhood of the valid %s token: position %zu x every later position x 6x6 structural bytes", cf_name[c], p1))
					continue;
				char *m = strdup(VALID[c]);
				for (size_t p2 = p1 + 1; p2 < n; p2++)
					for (unsigned a = 0; a < sizeof SA; a++)
						for (unsigned b = 0; b < sizeof SA; b++) {
							m[p1] = SA[a];
							m[p2] = SA[b];
							probe(c, m);
							if (c != CF_NOKEY)
								probe(CF_NOKEY, m);
							m[p2] = VALID[c][p2];
						}
				free(m);
				flush();
			}
		}
	/* (c) length sweeps: every length of each segment (buffer arithmetic) */
	{
		int maxl = 66000;
		for (int len = 0; len <= maxl; len++) {
			int take = len <= 300 || (len >= 4090 && len <= 4102) || (len >= 65530 && len <= 65542) || (vf_thorough && (len % 257 == 0 || (len >= 16380 && len <= 16390)));
			if (guard && len > 4102)
				take = 0;
			if (!take)
				continue;
			if (!vf_case("length sweep: segment of %d chars in each position (raw and JSON-bearing)", len))
				continue;
			char *seg = malloc(len + 1), *tok = malloc(3 * (size_t)len + 256);
			memset(seg, 'A', len);
			seg[len] = 0;
			sprintf(tok, "%s.e30.", seg); probe(CF_NOKEY, tok); probe(CF_HS, tok);
			if (len > 2) {
				/* the same lengths with a byte that makes the segment undecodable, in each position */
				seg[len / 2] = '!';
				sprintf(tok, "%s.e30.", seg); probe(CF_NOKEY, tok);
				sprintf(tok, "eyJhbGciOiJub25lIn0.%s.", seg); probe(CF_NOKEY, tok);
				sprintf(tok, "eyJhbGciOiJFUzI1NiJ9.e30.%s", seg); probe(CF_ES, tok); probe(CF_HS, tok);
				sprintf(tok, "eyJhbGciOiJSUzI1NiJ9.e30.%s", seg); probe(CF_RS, tok);
				seg[len / 2] = 'A';
			}
			sprintf(tok, "eyJhbGciOiJub25lIn0.%s.", seg); probe(CF_NOKEY, tok);
			sprintf(tok, "eyJhbGciOiJIUzI1NiJ9.e30.%s", seg); probe(CF_HS, tok); probe(CF_ES, tok); probe(CF_RS, tok); probe(CF_ED, tok);
			sprintf(tok, "eyJhbGciOiJFUzI1NiJ9.e30.%s", seg); probe(CF_ES, tok);
			sprintf(tok, "eyJhbGciOiJSUzI1NiJ9.e30.%s", seg); probe(CF_RS, tok);
			sprintf(tok, "eyJhbGciOiJFZERTQSJ9.e30.%s", seg); probe(CF_ED, tok);
			/* JSON whose encoding has exactly this many characters, where possible */
			if (len >= 24) {
				size_t raw = (size_t)len * 3 / 4;
				char *j = malloc(raw + 32);
				size_t o = sprintf(j, "{\"alg\":\"none\",\"p\":\"");
				while (o + 2 < raw)
					j[o++] = 'y';
				strcpy(j + o, "\"}");
				char *e = b64s(j);
				sprintf(tok, "%s.e30.", e); probe(CF_NOKEY, tok);
				sprintf(tok, "eyJhbGciOiJub25lIn0.%s.", e + 0); probe(CF_NOKEY, tok);
				free(e);
				free(j);
			}
			free(seg);
			free(tok);
			flush();
		}
	}
	/* (e) a signature of every decoded length under every configuration's own header and under every ES/RS/Ed header */
	{
		static const char *hdrs[] = { "{\"alg\":\"HS256\"}", "{\"alg\":\"RS256\"}", "{\"alg\":\"PS256\"}", "{\"alg\":\"ES256\"}", "{\"alg\":\"ES384\"}", "{\"alg\":\"ES512\"}",
					      "{\"alg\":\"ES256K\"}", "{\"alg\":\"EdDSA\"}" };
		for (int L = 0; L <= 520; L++) {
			if (L > 300 && !(L >= 382 && L <= 386) && !(L >= 510 && L <= 514))
				continue;
			if (!vf_case("signature of %d decoded bytes under every header x every configuration", L))
				continue;
			unsigned char sig[600];
			for (int i = 0; i < L; i++)
				sig[i] = (unsigned char)(0x41 + i * 7);
			for (unsigned h = 0; h < sizeof hdrs / sizeof *hdrs; h++) {
				char *input = tok_signing_input(hdrs[h], "{\"s\":1}");
				char *tok = tok_attach(input, sig, L);
				probe_all(tok);
				free(tok);
				free(input);
			}
			flush();
		}
	}
	/* (d) every string of length <= 6 over a 7-character alphabet */
	{
		static const char ABC[] = { '.', '=', 'e', 'A', '-', '!', (char)0x80 };
		for (int a = 0; a < 7; a++)
			for (int b = 0; b < 7; b++) {
				if (!vf_case("all strings of length 2..6 over {. = e A - ! 0x80} starting %02x %02x", (unsigned char)ABC[a], (unsigned char)ABC[b]))
					continue;
				char s[8] = { ABC[a], ABC[b], 0 };
				probe(CF_NOKEY, s); probe(CF_HS, s);
				for (int c = 0; c < 7; c++) {
					s[2] = ABC[c]; s[3] = 0;
					probe(CF_NOKEY, s); probe(CF_HS, s);
					for (int d = 0; d < 7; d++) {
						s[3] = ABC[d]; s[4] = 0;
						probe(CF_NOKEY, s); probe(CF_ES, s);
						for (int e = 0; e < 7; e++) {
							s[4] = ABC[e]; s[5] = 0;
							probe(CF_NOKEY, s);
							for (int f = 0; f < 7; f++) {
								s[5] = ABC[f]; s[6] = 0;
								probe(CF_NOKEY, s);
							}
							s[5] = 0;
						}
						s[4] = 0;
					}
					s[3] = 0;
				}
				flush();
			}
		if (vf_case("strings of length 0 and 1, and NULL")) {
			probe_all("");
			for (int a = 0; a < 7; a++) {
				char s[2] = { ABC[a], 0 };
				probe_all(s);
			}
			jwt_checker_verify(cf_chk[CF_NOKEY], NULL);
			flush();
		}
	}
}

int main(int argc, char **argv)
{
	rc_track_alloc();
	return vf_main(argc, argv, enumerate);
}
