/* C17 -- single allocation failure: for every scenario, every index k of the allocations it performs
 * (through the allocator installed with jwt_set_alloc) is made to fail, and the run is compared call by
 * call with the fault-free run.                                                                     */
#define _GNU_SOURCE
#include "vf.h"
#include "keys.h"
#include "tok.h"
#include <stdarg.h>
#include <execinfo.h>

extern void __sanitizer_symbolize_pc(void *pc, const char *fmt, char *out, size_t out_size) __attribute__((weak));

/* ------------------------------------------------------------------ traces */
#define MAXCALL 40
typedef struct {
	int n;
	char *r[MAXCALL];
	int failed[MAXCALL];    /* the call reported failure through its documented channel */
	const char *kind[MAXCALL];
} trace_t;

static void rec(trace_t *t, const char *kind, int failed, const char *fmt, ...)
{
	char buf[6000];
	va_list ap;
	va_start(ap, fmt);
	vsnprintf(buf, sizeof buf, fmt, ap);
	va_end(ap);
	if (t->n < MAXCALL) {
		t->r[t->n] = strdup(buf);
		t->failed[t->n] = failed;
		t->kind[t->n] = kind;
		t->n++;
	}
}
static void trace_free(trace_t *t)
{
	for (int i = 0; i < t->n; i++)
		free(t->r[i]);
	t->n = 0;
}

/* ------------------------------------------------------------------ fixtures (built before any fault window) */
static unsigned char K32[32];
static char *J_OCT, *J_RSA_PUB, *J_RSA_PRIV, *J_EC_PRIV, *J_EC_PUB, *J_OKP_PRIV, *J_OKP_PUB, *J_SET3, *J_PSS_PRIV;
static const char J_BAD[] = "{\"kty\":\"RSA\",\"n\":\"AAAA\"}";
static jwk_set_t *ks_oct, *ks_rsa_priv, *ks_rsa_pub, *ks_ec_priv, *ks_ec_pub, *ks_okp_priv, *ks_okp_pub, *ks_ring;
static char *T_HS, *T_HS_EXPIRED, *T_HS_BAD, *T_HS384, *T_ES, *T_RS, *T_ED, *T_NONE, *T_HS_KID, *T_PS;
static char *T_ES_BAD, *T_RS_BAD, *T_PS_BAD, *T_ED_BAD, *T_PS2, *T_HS_WRONGISS;
static jwk_set_t *ks_pss_pub;   /* right length, one signature bit flipped */
static const char T_MALFORMED[] = "eyJhbGciOiJIUzI1NiJ9.!!!!.AAAA";
static const time_t T0 = 1700000000;

static char *sign_ref(const char *hjson, const char *pjson, const char *keyname, jwt_alg_t alg)
{
	char *input = tok_signing_input(hjson, pjson);
	unsigned char *sig;
	size_t sl;
	rc_sign(vk_get(keyname), alg, input, strlen(input), &sig, &sl);
	char *t = tok_attach(input, sig, sl);
	free(sig);
	free(input);
	return t;
}
static char *hmac_ref(const char *hjson, const char *pjson, jwt_alg_t alg, int flip)
{
	char *input = tok_signing_input(hjson, pjson);
	unsigned char mac[64];
	size_t l = rc_hmac(alg, K32, 32, input, strlen(input), mac);
	if (flip)
		mac[9] ^= 4;
	char *t = tok_attach(input, mac, l);
	free(input);
	return t;
}

/* the same token with one bit of the decoded signature flipped (length unchanged) */
static char *flip_sig(const char *tok)
{
	rt_t t;
	rt_parse(tok, &t);
	t.dec[2][t.declen[2] / 2] ^= 0x10;
	char *input = strndup(tok, t.input_len);
	char *r = tok_attach(input, t.dec[2], t.declen[2]);
	free(input);
	rt_free(&t);
	return r;
}

static void fixtures(void)
{
	vk_oct_bytes(21, K32, 32);
	J_OCT = vk_oct_jwk(K32, 32, "HS256", "h1");
	J_RSA_PUB = vk_jwk_text(vk_get("rsa2048a"), 0, "RS256", "r1");
	J_RSA_PRIV = vk_jwk_text(vk_get("rsa2048a"), 1, "RS256", "r1");
	J_PSS_PRIV = vk_jwk_text(vk_get("rsa2048b"), 1, "PS256", "p1");
	J_EC_PRIV = vk_jwk_text(vk_get("p256a"), 1, "ES256", "e1");
	J_EC_PUB = vk_jwk_text(vk_get("p256a"), 0, "ES256", "e1");
	J_OKP_PRIV = vk_jwk_text(vk_get("ed25519a"), 1, "EdDSA", "d1");
	J_OKP_PUB = vk_jwk_text(vk_get("ed25519a"), 0, "EdDSA", "d1");
	J_SET3 = malloc(strlen(J_OCT) + strlen(J_EC_PUB) + strlen(J_BAD) + 64);
	sprintf(J_SET3, "{\"keys\":[%s,%s,%s]}", J_OCT, J_BAD, J_EC_PUB);
	ks_oct = jwks_create(J_OCT);
	ks_rsa_priv = jwks_create(J_RSA_PRIV);
	ks_rsa_pub = jwks_create(J_RSA_PUB);
	ks_ec_priv = jwks_create(J_EC_PRIV);
	ks_ec_pub = jwks_create(J_EC_PUB);
	ks_okp_priv = jwks_create(J_OKP_PRIV);
	ks_okp_pub = jwks_create(J_OKP_PUB);
	char *ring = malloc(strlen(J_OCT) + strlen(J_EC_PUB) + strlen(J_RSA_PUB) + 64);
	sprintf(ring, "{\"keys\":[%s,%s,%s]}", J_OCT, J_EC_PUB, J_RSA_PUB);
	ks_ring = jwks_create(ring);
	free(ring);
	rc_rng_reseed(99);
	const char *P = "{\"iss\":\"good\",\"sub\":\"s\",\"n\":[1,2,{\"a\":\"b\"}],\"exp\":1700000500}";
	T_HS = hmac_ref("{\"alg\":\"HS256\",\"typ\":\"JWT\"}", P, JWT_ALG_HS256, 0);
	T_HS_KID = hmac_ref("{\"alg\":\"HS256\",\"kid\":\"h1\"}", P, JWT_ALG_HS256, 0);
	T_HS_EXPIRED = hmac_ref("{\"alg\":\"HS256\"}", "{\"iss\":\"good\",\"exp\":1600000000}", JWT_ALG_HS256, 0);
	T_HS_BAD = hmac_ref("{\"alg\":\"HS256\"}", P, JWT_ALG_HS256, 1);
	T_HS_WRONGISS = hmac_ref("{\"alg\":\"HS256\"}", "{\"iss\":\"evil\",\"sub\":\"s\",\"exp\":1700000500}", JWT_ALG_HS256, 0);
	T_HS384 = hmac_ref("{\"alg\":\"HS384\"}", P, JWT_ALG_HS384, 0);
	T_ES = sign_ref("{\"alg\":\"ES256\"}", P, "p256a", JWT_ALG_ES256);
	T_RS = sign_ref("{\"alg\":\"RS256\"}", P, "rsa2048a", JWT_ALG_RS256);
	T_PS = sign_ref("{\"alg\":\"PS256\"}", P, "rsa2048a", JWT_ALG_PS256);
	T_ED = sign_ref("{\"alg\":\"EdDSA\"}", P, "ed25519a", JWT_ALG_EDDSA);
	T_ES_BAD = flip_sig(T_ES);
	T_RS_BAD = flip_sig(T_RS);
	T_PS2 = sign_ref("{\"alg\":\"PS256\"}", P, "rsa2048b", JWT_ALG_PS256);
	T_PS_BAD = flip_sig(T_PS2);
	{
		char *pj = vk_jwk_text(vk_get("rsa2048b"), 0, "PS256", "p1");
		ks_pss_pub = jwks_create(pj);
		free(pj);
	}
	T_ED_BAD = flip_sig(T_ED);
	char *in = tok_signing_input("{\"alg\":\"none\"}", P);
	T_NONE = malloc(strlen(in) + 2);
	sprintf(T_NONE, "%s.", in);
	free(in);
}

/* ------------------------------------------------------------------ recorded calls */
static void rec_set(trace_t *t, const char *what, jwk_set_t *s, size_t skip)
{
	if (!s) {
		rec(t, "load", 1, "%s -> NULL", what);
		return;
	}
	size_t n = jwks_item_count(s);
	rec(t, "load", jwks_error(s) != 0, "%s -> seterr=%d items=%zu", what, jwks_error(s) != 0, n - skip);
	/* one record per item: an errored item is a failure reported for that key only */
	for (size_t i = skip; i < n; i++) {
		const jwk_item_t *it = jwks_item_get(s, i);
		if (!it) {
			rec(t, "load", 0, "item %zu -> NULL-ITEM", i - skip);
			continue;
		}
		if (jwks_item_error(it)) {
			rec(t, "load", 1, "item %zu -> error kty=%d", i - skip, jwks_item_kty(it));
			continue;
		}
		const unsigned char *ob = NULL;
		size_t ol = 0;
		const char *pem = jwks_item_pem(it);
		uint64_t mat = 0;
		if (jwks_item_kty(it) == JWK_KEY_TYPE_OCT) {
			if (!jwks_item_key_oct(it, &ob, &ol))
				mat = vf_hash(ob, ol);
		} else if (pem)
			mat = vf_hash_str(pem);
		rec(t, "load", 0, "item %zu -> kty=%d bits=%d priv=%d alg=%d kid=%s use=%d ops=%d crv=%s material=%016llx", i - skip, jwks_item_kty(it),
		    jwks_item_key_bits(it), jwks_item_is_private(it), jwks_item_alg(it), jwks_item_kid(it) ? jwks_item_kid(it) : "-", jwks_item_use(it),
		    jwks_item_key_ops(it), jwks_item_curve(it) ? jwks_item_curve(it) : "-", (unsigned long long)mat);
	}
}

static int judge_token_randomised;   /* scenario produces ECDSA/PSS signatures: compare content, verify by reference */
static const char *judge_key;
static jwt_alg_t judge_alg;

static void rec_token(trace_t *t, const char *what, char *tok)
{
	if (!tok) {
		rec(t, "generate", 1, "%s -> NULL", what);
		return;
	}
	if (judge_token_randomised) {
		/* jansson is used by rt_parse: the fault window is over for this scenario's allocations, the injected
		 * failure (if not yet consumed) must not hit the harness */
		long save = vf_alloc_total();
		(void)save;
		char *dot = strrchr(tok, '.');
		size_t inlen = dot ? (size_t)(dot - tok) : 0;
		unsigned char sig[1024];
		long sl = dot ? ref_b64_decode_strict(dot + 1, strlen(dot + 1), sig) : -1;
		int ok = sl > 0 && rc_verify(vk_get(judge_key), judge_alg, tok, inlen, sig, sl);
		rec(t, "generate", 0, "%s -> %.*s.<sig valid=%d>", what, (int)inlen, tok, ok);
	} else
		rec(t, "generate", 0, "%s -> %s", what, tok);
}

/* ------------------------------------------------------------------ scenarios */
typedef void (*scen_fn)(trace_t *);
static long scen_param;

static void sc_load_one(trace_t *t, const char *doc)
{
	jwk_set_t *s = jwks_create(doc);
	rec_set(t, "jwks_create", s, 0);
	if (s) {
		/* use the loaded key: the verdict must not depend on the fault either */
		const jwk_item_t *it = jwks_item_get(s, 0);
		if (it && !jwks_item_error(it) && jwks_item_kty(it) == JWK_KEY_TYPE_OCT) {
			jwt_checker_t *c = jwt_checker_new();
			if (c) {
				int sr = jwt_checker_setkey(c, JWT_ALG_NONE, it);
				int r = sr ? -1 : jwt_checker_verify(c, T_HS);
				rec(t, "verify", r != 0, "verify(T_HS) with the loaded key -> %d", r);
				jwt_checker_free(c);
			} else
				rec(t, "new", 1, "checker_new -> NULL");
		}
	}
	jwks_free(s);
}
static void sc_load_oct(trace_t *t) { sc_load_one(t, J_OCT); }
static void sc_load_rsa_pub(trace_t *t) { sc_load_one(t, J_RSA_PUB); }
static void sc_load_rsa_priv(trace_t *t) { sc_load_one(t, J_RSA_PRIV); }
static void sc_load_ec_priv(trace_t *t) { sc_load_one(t, J_EC_PRIV); }
static void sc_load_ec_pub(trace_t *t) { sc_load_one(t, J_EC_PUB); }
static void sc_load_okp_priv(trace_t *t) { sc_load_one(t, J_OKP_PRIV); }
static void sc_load_okp_pub(trace_t *t) { sc_load_one(t, J_OKP_PUB); }
static void sc_load_bad(trace_t *t) { sc_load_one(t, J_BAD); }
static void sc_load_set3(trace_t *t) { sc_load_one(t, J_SET3); }
static void sc_load_nonjson(trace_t *t) { sc_load_one(t, "{\"keys\":["); }
static void sc_load_append(trace_t *t)
{
	jwk_set_t *s = jwks_create(NULL);
	rec(t, "new", s == NULL, "jwks_create(NULL) -> %s", s ? "set" : "NULL");
	if (!s)
		return;
	jwk_set_t *s2 = jwks_load(s, J_OCT);
	rec_set(t, "jwks_load(first)", s2, 0);
	size_t had = jwks_item_count(s);
	jwk_set_t *s3 = jwks_load_strn(s, J_EC_PUB, strlen(J_EC_PUB));
	rec_set(t, "jwks_load_strn(second)", s3, had);
	jwk_item_t *f = jwks_find_bykid(s, "e1");
	rec(t, "find", 0, "find_bykid(e1) -> %s", f ? "item" : "NULL");
	rec(t, "free", 0, "free_bad -> %d, count %zu", jwks_item_free_bad(s), jwks_item_count(s));
	jwks_free(s);
}
static void sc_load_file(trace_t *t)
{
	char path[64];
	snprintf(path, sizeof path, "oom-%d.json", (int)getpid());
	FILE *f = fopen(path, "wb");
	fputs(J_SET3, f);
	fclose(f);
	jwk_set_t *s = jwks_create_fromfile(path);
	rec_set(t, "jwks_create_fromfile", s, 0);
	jwks_free(s);
	f = fopen(path, "rb");
	s = jwks_create_fromfp(f);
	fclose(f);
	rec_set(t, "jwks_create_fromfp", s, 0);
	jwks_free(s);
	unlink(path);
}

static int add_cb(jwt_t *jwt, jwt_config_t *cfg)
{
	jwt_value_t v;
	(void)cfg;
	jwt_set_SET_STR(&v, "cb", "yes");
	if (jwt_claim_set(jwt, &v) != JWT_VALUE_ERR_NONE)
		return 1;
	jwt_set_SET_STR(&v, "kid", "h1");
	if (jwt_header_set(jwt, &v) != JWT_VALUE_ERR_NONE)
		return 1;
	return 0;
}

static void sc_build(trace_t *t, const jwk_item_t *key, jwt_alg_t alg, int with_cb)
{
	jwt_builder_t *b = jwt_builder_new();
	rec(t, "new", b == NULL, "builder_new -> %s", b ? "builder" : "NULL");
	if (!b)
		return;
	jwt_value_t v;
	int r;
	if (key) {
		r = jwt_builder_setkey(b, alg, key);
		rec(t, "config", r != 0, "setkey -> %d", r);
	}
	jwt_set_SET_STR(&v, "iss", "good");
	r = jwt_builder_claim_set(b, &v);
	rec(t, "set", r != 0, "claim_set(iss) -> %d", r);
	jwt_set_SET_INT(&v, "n", 42);
	r = jwt_builder_claim_set(b, &v);
	rec(t, "set", r != 0, "claim_set(n) -> %d", r);
	jwt_set_SET_BOOL(&v, "adm", 1);
	r = jwt_builder_claim_set(b, &v);
	rec(t, "set", r != 0, "claim_set(adm) -> %d", r);
	char js[] = "{\"roles\":[\"a\",\"b\"],\"deep\":{\"x\":1.5}}";
	jwt_set_SET_JSON(&v, NULL, js);
	r = jwt_builder_claim_set(b, &v);
	rec(t, "set", r != 0, "claim_set(json merge) -> %d", r);
	char js2[] = "[1,2,3]";
	jwt_set_SET_JSON(&v, "arr", js2);
	r = jwt_builder_claim_set(b, &v);
	rec(t, "set", r != 0, "claim_set(json arr) -> %d", r);
	jwt_set_SET_STR(&v, "typ", "at+jwt");
	r = jwt_builder_header_set(b, &v);
	rec(t, "set", r != 0, "header_set(typ) -> %d", r);
	jwt_builder_time_offset(b, JWT_CLAIM_EXP, 300);
	jwt_builder_time_offset(b, JWT_CLAIM_NBF, 10);
	if (with_cb) {
		r = jwt_builder_setcb(b, add_cb, NULL);
		rec(t, "config", r != 0, "setcb -> %d", r);
	}
	jwt_set_GET_JSON(&v, NULL);
	r = jwt_builder_claim_get(b, &v);
	rec(t, "get", r != 0, "claim_get(json all) -> %d %s", r, r == 0 && v.json_val ? v.json_val : "");
	if (v.json_val)
		vf_lfree(v.json_val);
	jwt_set_GET_INT(&v, "n");
	r = jwt_builder_claim_get(b, &v);
	rec(t, "get", r != 0, "claim_get(n) -> %d %ld", r, r == 0 ? v.int_val : 0);
	char *tok = jwt_builder_generate(b);
	rec_token(t, "generate", tok);
	if (!tok)
		rec(t, "error", 0, "builder error flag %d msg-nonempty %d", jwt_builder_error(b), jwt_builder_error_msg(b)[0] != 0);
	/* a second generate on the same builder */
	char *tok2 = jwt_builder_generate(b);
	rec_token(t, "generate#2", tok2);
	vf_lfree(tok);
	vf_lfree(tok2);
	jwt_builder_free(b);
}
static void sc_build_hs(trace_t *t) { sc_build(t, jwks_item_get(ks_oct, 0), JWT_ALG_NONE, 0); }
static void sc_build_hs_cb(trace_t *t) { sc_build(t, jwks_item_get(ks_oct, 0), JWT_ALG_HS256, 1); }
static void sc_build_none(trace_t *t) { sc_build(t, NULL, JWT_ALG_NONE, 0); }
static void sc_build_rs(trace_t *t) { sc_build(t, jwks_item_get(ks_rsa_priv, 0), JWT_ALG_RS256, 0); }
static void sc_build_ed(trace_t *t) { sc_build(t, jwks_item_get(ks_okp_priv, 0), JWT_ALG_EDDSA, 0); }
static void sc_build_es(trace_t *t)
{
	judge_token_randomised = 1;
	judge_key = "p256a";
	judge_alg = JWT_ALG_ES256;
	sc_build(t, jwks_item_get(ks_ec_priv, 0), JWT_ALG_ES256, 0);
	judge_token_randomised = 0;
}

static int kid_cb(jwt_t *jwt, jwt_config_t *cfg)
{
	jwt_value_t v;
	jwt_set_GET_STR(&v, "kid");
	if (jwt_header_get(jwt, &v) != JWT_VALUE_ERR_NONE)
		return 1;
	jwk_item_t *it = jwks_find_bykid(ks_ring, v.str_val);
	if (!it)
		return 1;
	cfg->key = it;
	cfg->alg = jwks_item_alg(it);
	jwt_set_GET_JSON(&v, NULL);
	if (jwt_claim_get(jwt, &v) != JWT_VALUE_ERR_NONE)
		return 1;
	vf_lfree(v.json_val);
	return 0;
}

static void sc_check(trace_t *t, const jwk_item_t *key, jwt_alg_t alg, int with_cb, const char **toks, int ntok)
{
	jwt_checker_t *c = jwt_checker_new();
	rec(t, "new", c == NULL, "checker_new -> %s", c ? "checker" : "NULL");
	if (!c)
		return;
	int r;
	if (key) {
		r = jwt_checker_setkey(c, alg, key);
		rec(t, "config", r != 0, "setkey -> %d", r);
	}
	r = jwt_checker_claim_set(c, JWT_CLAIM_ISS, "good");
	rec(t, "config", r != 0, "claim_set(iss) -> %d", r);
	const char *g = jwt_checker_claim_get(c, JWT_CLAIM_ISS);
	rec(t, "get", g == NULL, "claim_get(iss) -> %s", g ? g : "NULL");
	if (with_cb) {
		r = jwt_checker_setcb(c, kid_cb, NULL);
		rec(t, "config", r != 0, "setcb -> %d", r);
	}
	for (int i = 0; i < ntok; i++) {
		r = jwt_checker_verify(c, toks[i]);
		rec(t, "verify", r != 0, "verify(#%d) -> %d flag=%d", i, r, jwt_checker_error(c));
	}
	jwt_checker_free(c);
}
static void sc_check_hs(trace_t *t)
{
	const char *toks[] = { T_HS, T_HS_EXPIRED, T_HS_BAD, T_HS384, T_MALFORMED, T_NONE, T_HS, T_HS_WRONGISS };
	sc_check(t, jwks_item_get(ks_oct, 0), JWT_ALG_HS256, 0, toks, 8);
}
static void sc_check_bad_first(trace_t *t)
{
	const char *toks[] = { T_HS_BAD, T_HS };
	sc_check(t, jwks_item_get(ks_oct, 0), JWT_ALG_NONE, 0, toks, 2);
}
static void sc_check_es(trace_t *t)
{
	const char *toks[] = { T_ES, T_HS, T_RS, T_ES_BAD };
	sc_check(t, jwks_item_get(ks_ec_pub, 0), JWT_ALG_ES256, 0, toks, 4);
}
static void sc_check_rs(trace_t *t)
{
	const char *toks[] = { T_RS, T_PS, T_ES, T_RS_BAD };
	sc_check(t, jwks_item_get(ks_rsa_pub, 0), JWT_ALG_RS256, 0, toks, 4);
}
static void sc_check_ps(trace_t *t)
{
	const char *toks[] = { T_PS, T_RS };
	sc_check(t, jwks_item_get(ks_rsa_pub, 0), JWT_ALG_NONE, 0, toks, 1);
	/* a PS256 key of its own: valid, one signature bit flipped, another algorithm's token */
	const char *toks2[] = { T_PS2, T_PS_BAD, T_RS };
	sc_check(t, jwks_item_get(ks_pss_pub, 0), JWT_ALG_NONE, 0, toks2, 3);
}
static void sc_check_ed(trace_t *t)
{
	const char *toks[] = { T_ED, T_ES, T_ED_BAD };
	sc_check(t, jwks_item_get(ks_okp_pub, 0), JWT_ALG_EDDSA, 0, toks, 3);
}
static void sc_check_cb(trace_t *t)
{
	const char *toks[] = { T_HS_KID, T_HS, T_HS_BAD };
	sc_check(t, NULL, JWT_ALG_NONE, 1, toks, 3);
}
static void sc_check_nokey(trace_t *t)
{
	const char *toks[] = { T_NONE, T_HS, "", T_MALFORMED };
	sc_check(t, NULL, JWT_ALG_NONE, 0, toks, 4);
}

static int mut_cb(jwt_t *jwt, jwt_config_t *cfg)
{
	/* every jwt_t level call: set/get/del of each type */
	jwt_value_t v;
	(void)cfg;
	char js[] = "{\"k\":[true,null]}";
	jwt_set_SET_JSON(&v, "j", js);
	int r1 = jwt_claim_set(jwt, &v);
	jwt_set_GET_JSON(&v, "j");
	int r2 = jwt_claim_get(jwt, &v);
	if (r2 == JWT_VALUE_ERR_NONE)
		vf_lfree(v.json_val);
	jwt_set_GET_STR(&v, "iss");
	int r3 = jwt_claim_get(jwt, &v);
	jwt_claim_del(jwt, "sub");
	jwt_set_SET_BOOL(&v, "hb", 1);
	int r4 = jwt_header_set(jwt, &v);
	return (r1 || r2 || r3 || r4) ? 1 : 0;
}
static void sc_check_mutcb(trace_t *t)
{
	jwt_checker_t *c = jwt_checker_new();
	rec(t, "new", c == NULL, "checker_new -> %s", c ? "checker" : "NULL");
	if (!c)
		return;
	int r = jwt_checker_setkey(c, JWT_ALG_HS256, jwks_item_get(ks_oct, 0));
	rec(t, "config", r != 0, "setkey -> %d", r);
	jwt_checker_setcb(c, mut_cb, NULL);
	r = jwt_checker_verify(c, T_HS);
	rec(t, "verify", r != 0, "verify(valid, mutating cb) -> %d", r);
	r = jwt_checker_verify(c, T_HS_EXPIRED);
	rec(t, "verify", r != 0, "verify(expired, mutating cb) -> %d", r);
	jwt_checker_free(c);
}

/* keyring maintenance: load a set, look at every accessor, free by index / bad / all, reload, error_clear */
static void sc_ring_ops(trace_t *t)
{
	jwk_set_t *s = jwks_create_strn(J_SET3, strlen(J_SET3));
	rec_set(t, "jwks_create_strn", s, 0);
	if (!s)
		return;
	rec(t, "count", 0, "count=%zu error_any=%d", jwks_item_count(s), jwks_error_any(s));
	int fr = jwks_item_free(s, 1);
	rec(t, "free", 0, "free(1) -> %d, count %zu, error_any %d", fr, jwks_item_count(s), jwks_error_any(s));
	jwk_set_t *s2 = jwks_load(s, "{\"keys\":[");
	rec(t, "load", s2 == NULL || jwks_error(s) != 0, "load(non-JSON) -> %s seterr=%d msg-nonempty=%d", s2 ? "set" : "NULL", jwks_error(s), jwks_error_msg(s)[0] != 0);
	jwks_error_clear(s);
	size_t had = jwks_item_count(s);
	jwk_set_t *s3 = jwks_load(s, J_OKP_PUB);
	rec_set(t, "jwks_load(OKP public)", s3, had);
	jwk_item_t *f = jwks_find_bykid(s, "d1");
	rec(t, "find", 0, "find_bykid(d1) -> %s", f ? "item" : "NULL");
	if (f) {
		jwt_checker_t *c = jwt_checker_new();
		if (c) {
			int sr = jwt_checker_setkey(c, JWT_ALG_NONE, f);
			int r = sr ? -1 : jwt_checker_verify(c, T_ED);
			rec(t, "verify", r != 0, "verify(T_ED) with the found key -> %d", r);
			jwt_checker_free(c);
		} else
			rec(t, "new", 1, "checker_new -> NULL");
	}
	rec(t, "free", 0, "free_all -> %d", jwks_item_free_all(s));
	jwks_free(s);
}

/* builder bookkeeping calls that allocate little or nothing, and header/claim getters and deleters */
static void sc_build_misc(trace_t *t)
{
	jwt_builder_t *b = jwt_builder_new();
	rec(t, "new", b == NULL, "builder_new -> %s", b ? "builder" : "NULL");
	if (!b)
		return;
	jwt_value_t v;
	int r;
	jwt_set_SET_STR(&v, "kid", "k1");
	r = jwt_builder_header_set(b, &v);
	rec(t, "set", r != 0, "header_set(kid) -> %d", r);
	jwt_set_SET_STR(&v, "kid", "k2");
	r = jwt_builder_header_set(b, &v);
	rec(t, "set", r != 0, "header_set(kid) again without replace -> %d", r);
	v.replace = 1;
	r = jwt_builder_header_set(b, &v);
	rec(t, "set", r != 0, "header_set(kid) with replace -> %d", r);
	jwt_set_GET_STR(&v, "kid");
	r = jwt_builder_header_get(b, &v);
	rec(t, "get", r != 0, "header_get(kid) -> %d %s", r, r == 0 ? v.str_val : "");
	char js[] = "{\"x5c\":[\"a\",\"b\"],\"crit\":[\"x\"]}";
	jwt_set_SET_JSON(&v, NULL, js);
	v.replace = 1;
	r = jwt_builder_header_set(b, &v);
	rec(t, "set", r != 0, "header_set(json merge replace) -> %d", r);
	jwt_set_GET_JSON(&v, "x5c");
	r = jwt_builder_header_get(b, &v);
	rec(t, "get", r != 0, "header_get(x5c json) -> %d %s", r, r == 0 ? v.json_val : "");
	if (r == 0)
		vf_lfree(v.json_val);
	jwt_set_GET_JSON(&v, NULL);
	v.pretty = 1;
	r = jwt_builder_header_get(b, &v);
	rec(t, "get", r != 0, "header_get(all, pretty) -> %d %s", r, r == 0 ? v.json_val : "");
	if (r == 0)
		vf_lfree(v.json_val);
	r = jwt_builder_header_del(b, "crit");
	rec(t, "del", r != 0, "header_del(crit) -> %d", r);
	r = jwt_builder_setkey(b, JWT_ALG_HS256, jwks_item_get(ks_oct, 0));
	rec(t, "config", r != 0, "setkey(HS256) -> %d", r);
	r = jwt_builder_setkey(b, JWT_ALG_RS256, jwks_item_get(ks_oct, 0));
	rec(t, "config", 0, "setkey(RS256, key alg HS256) -> %d flag %d", r, jwt_builder_error(b));
	jwt_builder_error_clear(b);
	jwt_builder_enable_iat(b, 0);
	char *tok = jwt_builder_generate(b);
	rec_token(t, "generate(no iat)", tok);
	vf_lfree(tok);
	r = jwt_builder_setkey(b, JWT_ALG_NONE, NULL);
	rec(t, "config", r != 0, "setkey(none,NULL) -> %d", r);
	tok = jwt_builder_generate(b);
	rec_token(t, "generate(unsigned)", tok);
	vf_lfree(tok);
	jwt_builder_free(b);
}

static struct {
	const char *name;
	scen_fn fn;
	int crypto;   /* depends on the provider: run under both */
} SCEN[] = {
	{ "keyring: create_strn, count, free(1), non-JSON load, error_clear, append, find, verify, free_all", sc_ring_ops, 1 },
	{ "builder: header set/replace/get/del, JSON merge, pretty dump, setkey refusals, generate signed and unsigned", sc_build_misc, 1 },
	{ "load oct JWK and verify with it", sc_load_oct, 0 },
	{ "load RSA public JWK", sc_load_rsa_pub, 0 },
	{ "load RSA private JWK", sc_load_rsa_priv, 0 },
	{ "load EC private JWK", sc_load_ec_priv, 0 },
	{ "load EC public JWK", sc_load_ec_pub, 0 },
	{ "load OKP private JWK", sc_load_okp_priv, 0 },
	{ "load OKP public JWK", sc_load_okp_pub, 0 },
	{ "load bad RSA JWK", sc_load_bad, 0 },
	{ "load 3-key set (good, bad, good)", sc_load_set3, 0 },
	{ "load non-JSON", sc_load_nonjson, 0 },
	{ "create empty set, append two keys, find, free_bad", sc_load_append, 0 },
	{ "load from file and from FILE*", sc_load_file, 0 },
	{ "builder HS256 (alg from key): setters, getters, generate twice", sc_build_hs, 1 },
	{ "builder HS256 with callback adding claim and header", sc_build_hs_cb, 1 },
	{ "builder alg none", sc_build_none, 0 },
	{ "builder RS256", sc_build_rs, 1 },
	{ "builder EdDSA", sc_build_ed, 1 },
	{ "builder ES256 (randomised signature)", sc_build_es, 1 },
	{ "checker HS256: valid, expired, bad sig, wrong alg, malformed, unsigned, valid", sc_check_hs, 1 },
	{ "checker HS256 (alg from key): bad sig then valid", sc_check_bad_first, 1 },
	{ "checker ES256: valid, HS256 token, RS256 token", sc_check_es, 1 },
	{ "checker RS256: valid, PS256 token, ES256 token", sc_check_rs, 1 },
	{ "checker RSA key with alg attribute RS256: PS256 token", sc_check_ps, 1 },
	{ "checker EdDSA: valid, ES256 token", sc_check_ed, 1 },
	{ "checker with key-selecting callback", sc_check_cb, 1 },
	{ "checker without key: unsigned, signed, empty, malformed", sc_check_nokey, 0 },
	{ "checker with token-mutating callback", sc_check_mutcb, 1 },
};
#define NSCEN ((int)(sizeof SCEN / sizeof *SCEN))

/* ------------------------------------------------------------------ fault site */
static void *fault_pcs[48];
static int fault_npc;
static long fault_target;   /* absolute request number that fails */

static void alloc_hook(int is_free)
{
	if (is_free || !fault_target)
		return;
	if (vf_alloc_total() + 1 == fault_target)
		fault_npc = backtrace(fault_pcs, 48);
}

/* innermost libjwt function and the function it called, from the recorded backtrace */
static void fault_site(char *out, size_t n)
{
	char fn[48][160], file[48][300];
	snprintf(out, n, "?>?");
	if (!__sanitizer_symbolize_pc || fault_npc <= 0)
		return;
	for (int i = 0; i < fault_npc; i++) {
		char buf[600];
		__sanitizer_symbolize_pc((char *)fault_pcs[i] - 1, "%f|%s", buf, sizeof buf);
		char *bar = strchr(buf, '|');
		if (bar)
			*bar = 0;
		snprintf(fn[i], sizeof fn[i], "%s", buf);
		snprintf(file[i], sizeof file[i], "%s", bar ? bar + 1 : "");
	}
	for (int i = 0; i < fault_npc; i++)
		if (strstr(file[i], "/libjwt/") && !strstr(file[i], "/libjwt/jwt-memory.c")) {
			/* the function it called: the frame just below, unless that is the allocator itself */
			const char *callee = i > 0 && !strstr(file[i - 1], "/libjwt/jwt-memory.c") ? fn[i - 1] : "jwt_malloc";
			/* five jansson entry points misbehave by themselves when their own allocation fails (KNOWN_FINDINGS.txt): what fails there is
			 * identified by the jansson function, whatever the libjwt function around the call is called this week */
			static const char *own[] = { "json_dumps", "json_loadb", "json_load_file", "json_loadf", "json_object_update_missing" };
			for (unsigned k = 0; k < sizeof own / sizeof *own; k++)
				if (!strcmp(callee, own[k])) {
					snprintf(out, n, "jansson:%s", callee);
					return;
				}
			snprintf(out, n, "%s>%s", fn[i], callee);
			return;
		}
}

/* ------------------------------------------------------------------ judging */
static trace_t BASE[64];
static long BASE_N[64];
static int base_done[64];
static int fds_base[64];   /* descriptors the fault-free scenario itself leaves open (0 everywhere, as it should be) */

static void run_scenario(int s, trace_t *t, long fail_k)
{
	t->n = 0;
	vf_now = T0;
	rc_rng_reseed(1000 + s);
	vf_alloc_reset_counter();
	fault_target = 0;
	fault_npc = 0;
	if (fail_k) {
		vf_alloc_fail_at(fail_k);
		fault_target = vf_alloc_total() + fail_k;
	}
	SCEN[s].fn(t);
	vf_alloc_fail_at(0);
	fault_target = 0;
}

static long n_same, n_reported, n_consumed;

/* open descriptors of the process (the one the listing itself uses included, every time) */
#include <dirent.h>
static int open_fds(void)
{
	DIR *d = opendir("/proc/self/fd");
	int n = 0;
	if (!d)
		return -1;
	while (readdir(d))
		n++;
	closedir(d);
	return n;
}

static void judge(int s, long k, const trace_t *f)
{
	const trace_t *b = &BASE[s];
	int delivered = vf_alloc_failed() > 0;
	(void)delivered;
	for (int i = 0; i < f->n && i < b->n; i++) {
		if (!strcmp(f->r[i], b->r[i]))
			continue;
		if (f->failed[i]) {
			/* the call reported failure through its documented channel: the application has been told */
			n_reported++;
			vf_obs(vf_hash_mix(i, 1));
			/* ... unless the fault-free run also fails here and the faulty one claims something different, which is fine too.
			 * What a reported failure never licenses: a later verification on the same object accepting a token that the
			 * fault-free run rejects (a refused configuration call must not leave the checker weaker than it was) */
			for (int j = i + 1; j < f->n && j < b->n; j++) {
				if (strcmp(f->kind[j], "verify") || strcmp(b->kind[j], "verify"))
					continue;
				const char *fa = strstr(f->r[j], "-> "), *ba = strstr(b->r[j], "-> ");
				if (!fa || !ba || (fa - f->r[j]) != (ba - b->r[j]) || strncmp(f->r[j], b->r[j], fa - f->r[j]))
					continue;
				if (!strncmp(fa, "-> 0", 4) && strncmp(ba, "-> 0", 4)) {
					char site[400], key[500];
					fault_site(site, sizeof site);
					snprintf(key, sizeof key, "%s|wrong-accept-after-reported-failure", site);
					vf_violation(key, "scenario '%s', allocation #%ld fails: call %d reported failure [%s]; later call %d gives [%s], fault-free [%s]", SCEN[s].name, k, i,
						     f->r[i], j, f->r[j], b->r[j]);
					break;
				}
			}
			return;
		}
		/* same call, different result, no failure reported */
		const char *sym = "value-differs";
		if (!strcmp(f->kind[i], "verify"))
			sym = strstr(f->r[i], "-> 0") ? "wrong-accept" : "verdict-differs";
		else if (!strcmp(f->kind[i], "generate"))
			sym = "token-differs";
		else if (!strcmp(f->kind[i], "load"))
			sym = "key-differs";
		char site[400], key[500];
		fault_site(site, sizeof site);
		snprintf(key, sizeof key, "%s|%s", site, sym);
		vf_violation(key, "scenario '%s', allocation #%ld fails: call %d gives [%s], fault-free [%s]", SCEN[s].name, k, i, f->r[i], b->r[i]);
		return;
	}
	if (f->n != b->n) {
		/* a shorter trace is fine only if its last call reported failure (handled above); otherwise flag */
		int last_failed = f->n > 0 && f->failed[f->n - 1];
		if (!last_failed) {
			char site[400], key[500];
			fault_site(site, sizeof site);
			snprintf(key, sizeof key, "%s|trace-length-differs", site);
			vf_violation(key, "scenario '%s', allocation #%ld fails: %d calls recorded, fault-free %d", SCEN[s].name, k, f->n, b->n);
		} else
			n_reported++;
		return;
	}
	n_same++;
	vf_obs(2);
}

static void enumerate(void)
{
	vf_alloc_install();
	vf_alloc_track(1);
	vk_load();
	rc_rng_install();
	lj_select_provider(vf_param);
	fixtures();
	vf_alloc_hook = alloc_hook;
	long total_allocs = 0;
	for (int s = 0; s < NSCEN; s++) {
		if (vf_param == 1 && !SCEN[s].crypto)
			continue;   /* provider-independent scenarios run once, under provider 0 */
		/* the fault-free run is needed by every shard to know N; it is cheap */
		trace_t t0 = { 0 };
		run_scenario(s, &t0, 0);
		long N = vf_alloc_total();
		BASE[s] = t0;
		BASE_N[s] = N;
		base_done[s] = 1;
		total_allocs += N;
		/* determinism of the fault-free run itself */
		trace_t t1 = { 0 };
		int fb0 = open_fds();
		run_scenario(s, &t1, 0);
		fds_base[s] = open_fds() - fb0;
		if (t1.n != t0.n || vf_alloc_total() != N) {
			fprintf(stderr, "oom: scenario %s is not deterministic (%ld vs %ld allocations)\n", SCEN[s].name, N, vf_alloc_total());
			exit(2);
		}
		for (int i = 0; i < t0.n; i++)
			if (strcmp(t0.r[i], t1.r[i])) {
				fprintf(stderr, "oom: scenario %s call %d differs between two fault-free runs:\n%s\n%s\n", SCEN[s].name, i, t0.r[i], t1.r[i]);
				exit(2);
			}
		trace_free(&t1);
		for (long k = 1; k <= N; k++) {
			if (!vf_case("scenario '%s' (%ld allocations): allocation #%ld returns NULL", SCEN[s].name, N, k))
				continue;
			trace_t tf = { 0 };
			int fds0 = open_fds();
			run_scenario(s, &tf, k);
			int fds1 = open_fds();
			/* a file or stream the faulted call opened and never closed: every such failure costs the process a descriptor, and once they
			 * run out the fault-free calls fail too */
			if (fds0 >= 0 && fds1 != fds0 + fds_base[s])
				vf_violation("descriptor-left-open", "scenario '%s', allocation #%ld failing: %d descriptor(s) more are open afterwards than after the fault-free run", SCEN[s].name, k,
					     fds1 - fds0 - fds_base[s]);
			if (vf_alloc_failed() != 1)
				vf_violation("harness|fault-not-delivered", "allocation #%ld of %ld was never requested", k, N);
			else
				n_consumed++;
			judge(s, k, &tf);
			trace_free(&tf);
			vf_nontrivial_case();
		}
	}
	vf_count("=allocation_points", total_allocs);
	vf_count("=scenarios", NSCEN);
	vf_count("faults_delivered", n_consumed);
	vf_count("runs_identical_to_fault_free", n_same);
	vf_count("runs_reporting_failure", n_reported);
}

int main(int argc, char **argv)
{
	return vf_main(argc, argv, enumerate);
}
