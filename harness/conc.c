/* C18 -- separate builders/checkers sharing one keyring, used concurrently.
 * Deviation-bounded stateless search (CHESS idiom): N real threads serialised by engine/sched.c, scheduling
 * points at every allocator call (libjwt + jansson, and libjwt's own OPENSSL_malloc/free calls) and every time() call; every interleaving with at most
 * `bound` preemptions is executed and each thread's token and verdicts are compared with its sequential run.
 * A separate free-running pass of the same bodies under ThreadSanitizer looks for unsynchronised accesses. */
#define _GNU_SOURCE
#include "vf.h"
#include "keys.h"
#include "tok.h"
#include "vsched.h"
#include <pthread.h>
#include <unistd.h>

static const time_t T0 = 1700000000;

typedef struct {
	const char *name;
	jwt_alg_t alg;
	const char *key;     /* pool key or NULL for oct */
	int deterministic;
} ccfg_t;
static const ccfg_t CFG[] = {
	{ "HS256", JWT_ALG_HS256, NULL, 1 },
	{ "EdDSA", JWT_ALG_EDDSA, "ed25519a", 1 },
	{ "RS256", JWT_ALG_RS256, "rsa2048a", 1 },
	{ "ES256", JWT_ALG_ES256, "p256a", 0 },
	/* GnuTLS has no ES256K: there every call fails, sequentially and concurrently alike (the comparison is what counts) */
	{ "ES256K", JWT_ALG_ES256K, "k256", 0 },
};
static long seq_odd;           /* sequential bodies whose result is not the designed one (kept as reference all the same) */
static int cfg_unsupported;   /* bit c set: configuration c does not work under the provider in force */
#define NCFG ((int)(sizeof CFG / sizeof *CFG))
/* mixed runs: the threads use different algorithms and keys (anything shared between two calls in flight shows as a wrong
 * key or algorithm in one of them); run index NCFG + m, thread t uses configuration MIX[m][t % 2] */
static const int MIX[][2] = { { 0, 1 }, { 1, 3 }, { 2, 0 } };
#define NMIX ((int)(sizeof MIX / sizeof *MIX))
static int thread_cfg(int run, int t) { return run < NCFG ? run : MIX[run - NCFG][t % 2]; }
static const char *run_name(int run)
{
	static char b[4][48];
	static int k;
	if (run < NCFG)
		return CFG[run].name;
	char *r = b[k++ % 4];
	snprintf(r, 48, "%s+%s", CFG[MIX[run - NCFG][0]].name, CFG[MIX[run - NCFG][1]].name);
	return r;
}

static jwk_set_t *ring[NCFG];          /* shared, read-only: [0] private/symmetric, [1] public */
static char *FIXED_GOOD[NCFG], *FIXED_BAD[NCFG], *FIXED_SHORT[NCFG];
static unsigned char K32[32];

typedef struct {
	int cfg, tid;
	char *tok;
	int r_own, r_bad, r_good, flag_after_bad, r_short;
	int gen_failed;
} tobs_t;

static void body(void *arg)
{
	tobs_t *o = arg;
	const ccfg_t *c = &CFG[o->cfg];
	const jwk_item_t *priv = jwks_item_get(ring[o->cfg], 0), *pub = jwks_item_get(ring[o->cfg], 1);
	jwt_builder_t *b = jwt_builder_new();
	jwt_value_t v;
	char sub[32];
	snprintf(sub, sizeof sub, "thread-%d", o->tid);
	jwt_builder_setkey(b, c->alg, priv);
	jwt_set_SET_STR(&v, "sub", sub);
	jwt_builder_claim_set(b, &v);
	jwt_set_SET_INT(&v, "n", 1000 + o->tid);
	jwt_builder_claim_set(b, &v);
	jwt_set_SET_STR(&v, "kid", sub);
	jwt_builder_header_set(b, &v);
	jwt_set_SET_STR(&v, "iss", "iss-shared");
	jwt_builder_claim_set(b, &v);
	jwt_set_SET_STR(&v, "aud", "aud-shared");
	jwt_builder_claim_set(b, &v);
	o->tok = jwt_builder_generate(b);
	o->gen_failed = o->tok == NULL;
	jwt_checker_t *k = jwt_checker_new();
	jwt_checker_setkey(k, c->alg, pub);
	/* each thread's checker expects a different claim: whatever the claim checks keep between two calls in flight shows
	 * as a good token refused (or a wrong one accepted) in the other thread */
	if (o->tid % 2 == 0)
		jwt_checker_claim_set(k, JWT_CLAIM_ISS, "iss-shared");
	else
		jwt_checker_claim_set(k, JWT_CLAIM_AUD, "aud-shared");
	o->r_own = o->tok ? jwt_checker_verify(k, o->tok) : -1;
	/* a token whose signature has the wrong length takes the early exits of the verification routines (odd threads only) */
	o->r_short = o->tid % 2 ? jwt_checker_verify(k, FIXED_SHORT[o->cfg]) : 1;
	o->r_bad = jwt_checker_verify(k, FIXED_BAD[o->cfg]);
	o->flag_after_bad = jwt_checker_error(k);
	o->r_good = jwt_checker_verify(k, FIXED_GOOD[o->cfg]);
	jwt_checker_free(k);
	jwt_builder_free(b);
}

static void obs_free(tobs_t *o) { vf_lfree(o->tok); o->tok = NULL; }

/* A keyring that no thread has used yet: whatever the library builds lazily on first use of a key is built inside the
 * explored execution, not before it.  `warm` runs one complete body on it first (keys that have been used before). */
static char *ring_doc[NCFG];
static void body(void *arg);
static void fresh_ring(int i, int warm)
{
	if (ring[i])
		jwks_free(ring[i]);
	ring[i] = jwks_create(ring_doc[i]);
	if (!ring[i] || jwks_item_count(ring[i]) != 2 || jwks_error_any(ring[i])) {
		fprintf(stderr, "conc: keyring %s does not load\n", CFG[i].name);
		exit(2);
	}
	if (warm) {
		tobs_t o = { 0 };
		o.cfg = i;
		o.tid = 7;
		body(&o);
		vf_lfree(o.tok);
	}
}

static void setup(void)
{
	vk_oct_bytes(91, K32, 32);
	for (int i = 0; i < NCFG; i++) {
		char *a, *b, doc[16384];
		if (!CFG[i].key) {
			a = vk_oct_jwk(K32, 32, NULL, "priv");
			b = vk_oct_jwk(K32, 32, NULL, "pub");
		} else {
			a = vk_jwk_text(vk_get(CFG[i].key), 1, NULL, "priv");
			b = vk_jwk_text(vk_get(CFG[i].key), 0, NULL, "pub");
		}
		snprintf(doc, sizeof doc, "{\"keys\":[%s,%s]}", a, b);
		ring_doc[i] = strdup(doc);
		free(a);
		free(b);
		char hdr[64];
		snprintf(hdr, sizeof hdr, "{\"alg\":\"%s\"}", tok_alg_names[CFG[i].alg]);
		char *input = tok_signing_input(hdr, "{\"sub\":\"fixed\",\"iss\":\"iss-shared\",\"aud\":\"aud-shared\"}");
		unsigned char *sig, mac[64];
		size_t sl;
		if (!CFG[i].key) {
			sl = rc_hmac(CFG[i].alg, K32, 32, input, strlen(input), mac);
			sig = malloc(sl);
			memcpy(sig, mac, sl);
		} else
			rc_sign(vk_get(CFG[i].key), CFG[i].alg, input, strlen(input), &sig, &sl);
		FIXED_GOOD[i] = tok_attach(input, sig, sl);
		sig[sl / 2] ^= 0x20;
		FIXED_BAD[i] = tok_attach(input, sig, sl);
		FIXED_SHORT[i] = tok_attach(input, sig, sl / 2);
		free(sig);
		free(input);
	}
}

/* ------------------------------------------------------------------ scheduler glue */
static void alloc_point(int is_free) { (void)is_free; sched_point(); }
static void time_point(void) { sched_point(); }

#define MAXPTS 8192
typedef struct {
	sched_point_t pts[MAXPTS];
	int ch[MAXPTS];
	int n;
	int rc;
	tobs_t obs[SCHED_MAXT];
} exec_t;

static tobs_t SEQ[NCFG][SCHED_MAXT];

static int warm_ring;
static void run_schedule(int cfg, int nthr, const int *prefix, int plen, exec_t *x)
{
	rc_rng_reseed(515151);
	fresh_ring(thread_cfg(cfg, 0), warm_ring);
	if (thread_cfg(cfg, 1) != thread_cfg(cfg, 0))
		fresh_ring(thread_cfg(cfg, 1), warm_ring);
	sched_body_t bodies[SCHED_MAXT];
	void *args[SCHED_MAXT];
	for (int t = 0; t < nthr; t++) {
		memset(&x->obs[t], 0, sizeof x->obs[t]);
		x->obs[t].cfg = thread_cfg(cfg, t);
		x->obs[t].tid = t;
		bodies[t] = body;
		args[t] = &x->obs[t];
	}
	rc_rng_reseed(424242);
	x->rc = sched_run(nthr, bodies, args, prefix, plen, x->pts, x->ch, MAXPTS, &x->n);
}

static long n_exec, n_interleaved, n_points_max, n_points_total;

static const char *sched_str(const exec_t *x)
{
	static char b[600];
	size_t o = 0;
	b[0] = 0;
	for (int i = 0; i < x->n && o < sizeof b - 40; i++)
		if (x->ch[i] != 0 || i == 0)
			o += snprintf(b + o, sizeof b - o, "%s@%d:%d", o ? "," : "", i, x->ch[i]);
	return b;
}

/* compare an execution with the sequential results */
static void check_exec(int cfg, int nthr, const exec_t *x)
{
	n_exec++;
	n_points_total += x->n;
	if (x->n > n_points_max)
		n_points_max = x->n;
	if (x->rc == -1)
		vf_violation("harness|prefix-divergence", "%s: a replayed prefix choice was out of range (schedule %s)", run_name(cfg), sched_str(x));
	if (x->rc == -2)
		vf_violation("harness|too-many-points", "%s: more than %d scheduling points", run_name(cfg), MAXPTS);
	if (x->rc == -3) {
		/* a thread is blocked where no schedule of independent objects can block: on a lock or an object of the library that another
		 * thread's call destroyed or never released.  Its threads are still alive: this worker cannot go on. */
		char key[96];
		snprintf(key, sizeof key, "schedule|%s|no-progress", run_name(cfg));
		vf_violation(key, "no thread reached its next scheduling point within %d s (deadlock or wait on a destroyed object); schedule (point:choice) %s", sched_horizon_s, sched_str(x));
		fflush(NULL);
		_exit(0);
	}
	int switches = 0;
	for (int i = 1; i < x->n; i++)
		if (x->pts[i].thread != x->pts[i - 1].thread)
			switches++;
	if (switches > nthr - 1)
		n_interleaved++;
	uint64_t h = 0;
	for (int t = 0; t < nthr; t++) {
		int tc = thread_cfg(cfg, t);
		const tobs_t *o = &x->obs[t], *s = &SEQ[tc][t];
		h = vf_hash_mix(h, vf_hash_mix(o->r_own * 9 + o->r_bad * 3 + o->r_good, CFG[tc].deterministic ? vf_hash_str(o->tok) : 0));
		if (o->gen_failed != s->gen_failed || o->r_own != s->r_own || o->r_bad != s->r_bad || o->r_good != s->r_good || o->flag_after_bad != s->flag_after_bad ||
		    (o->r_short != 0) != (s->r_short != 0)) {
			char key[96];
			snprintf(key, sizeof key, "schedule|%s|verdict-differs", run_name(cfg));
			vf_violation(key, "thread %d: generate-failed=%d verify(own)=%d verify(bad)=%d verify(good)=%d, sequentially %d %d %d %d; schedule (point:choice) %s", t,
				     o->gen_failed, o->r_own, o->r_bad, o->r_good, s->gen_failed, s->r_own, s->r_bad, s->r_good, sched_str(x));
		} else if (CFG[tc].deterministic && o->tok && s->tok && strcmp(o->tok, s->tok)) {
			char key[96];
			snprintf(key, sizeof key, "schedule|%s|token-differs", run_name(cfg));
			vf_violation(key, "thread %d produced %s, sequentially %s; schedule (point:choice) %s", t, o->tok, s->tok, sched_str(x));
		}
	}
	vf_obs(h);
}

static int preemptions_before(const exec_t *x, int i)
{
	int c = 0;
	for (int k = 0; k < i; k++)
		if (x->pts[k].running_enabled && x->ch[k] != 0)
			c++;
	return c;
}

/* explore every extension of `x` (obtained with prefix length plen) within the preemption bound */
static void explore(int cfg, int nthr, exec_t *x, int plen, int bound)
{
	for (int i = plen; i < x->n; i++) {
		int cost = preemptions_before(x, i) + (x->pts[i].running_enabled ? 1 : 0);
		if (cost > bound)
			continue;
		for (int alt = 1; alt < x->pts[i].n_enabled; alt++) {
			int *pfx = malloc(sizeof(int) * (i + 1));
			memcpy(pfx, x->ch, sizeof(int) * i);
			pfx[i] = alt;
			exec_t *y = malloc(sizeof *y);
			run_schedule(cfg, nthr, pfx, i + 1, y);
			check_exec(cfg, nthr, y);
			explore(cfg, nthr, y, i + 1, bound);
			for (int t = 0; t < nthr; t++)
				obs_free(&y->obs[t]);
			free(y);
			free(pfx);
		}
	}
}

/* ------------------------------------------------------------------ free-running pass (TSan build) */
struct frarg {
	int cfg, run, tid, iters;
	long mismatches;
};
static pthread_barrier_t bar;
static void *free_body(void *p)
{
	struct frarg *a = p;
	for (int i = 0; i < a->iters; i++) {
		/* every second round starts on a keyring nobody has used yet (thread 0 swaps it in between two barriers) */
		pthread_barrier_wait(&bar);
		if (a->tid == 0 && i % 2 == 0) {
			fresh_ring(thread_cfg(a->run, 0), 0);
			if (thread_cfg(a->run, 1) != thread_cfg(a->run, 0))
				fresh_ring(thread_cfg(a->run, 1), 0);
		}
		pthread_barrier_wait(&bar);
		tobs_t o = { 0 };
		o.cfg = a->cfg;
		o.tid = a->tid % SCHED_MAXT;
		body(&o);
		const tobs_t *s = &SEQ[a->cfg][o.tid];
		if (o.r_own != s->r_own || o.r_bad != s->r_bad || o.r_good != s->r_good || (o.r_short != 0) != (s->r_short != 0) || (CFG[a->cfg].deterministic && o.tok && s->tok && strcmp(o.tok, s->tok)))
			a->mismatches++;
		free(o.tok);
	}
	return NULL;
}

static void sequential_reference(void)
{
	for (int c = 0; c < NCFG; c++)
		for (int t = 0; t < SCHED_MAXT; t++) {
			memset(&SEQ[c][t], 0, sizeof SEQ[c][t]);
			SEQ[c][t].cfg = c;
			SEQ[c][t].tid = t;
			fresh_ring(c, 0);
			rc_rng_reseed(424242);
			body(&SEQ[c][t]);
			if (CFG[c].alg == JWT_ALG_ES256K && !strcmp(jwt_get_crypto_ops(), "gnutls") && SEQ[c][t].gen_failed && SEQ[c][t].r_good != 0)
				cfg_unsupported |= 1 << c;   /* refused throughout: the threads must be refused throughout as well */
			else if (SEQ[c][t].gen_failed || SEQ[c][t].r_own != 0 || SEQ[c][t].r_bad == 0 || SEQ[c][t].r_good != 0) {
				/* what one thread alone gets is other properties' business (C01, C03, C05): here it is simply the result every
				 * schedule has to reproduce.  Counted, so that the evidence shows it. */
				fprintf(stderr, "conc: note: sequential run of %s thread %d is not the designed one (%d %d %d %d); kept as the reference\n", CFG[c].name, t,
					SEQ[c][t].gen_failed, SEQ[c][t].r_own, SEQ[c][t].r_bad, SEQ[c][t].r_good);
				seq_odd++;
			}
		}
}

static void enumerate_free_running(int provider)
{
	lj_select_provider(provider);
	setup();
	alarm(45);   /* one thread alone cannot wait for anybody: a stall here is a stall of the library */
	sequential_reference();
	alarm(0);
	for (int c = 0; c < NCFG + NMIX; c++) {
		if (!vf_case("free-running: 8 threads x %d iterations of the %s body under ThreadSanitizer [%s]", vf_thorough ? 400 : 100, run_name(c), lj_provider_name(provider)))
			continue;
		pthread_t th[8];
		struct frarg a[8];
		pthread_barrier_init(&bar, NULL, 8);
		for (int t = 0; t < 8; t++) {
			a[t] = (struct frarg){ thread_cfg(c, t), c, t, vf_thorough ? 400 : 100, 0 };
			pthread_create(&th[t], NULL, free_body, &a[t]);
		}
		long mism = 0;
		for (int t = 0; t < 8; t++) {
			pthread_join(th[t], NULL);
			mism += a[t].mismatches;
		}
		vf_obs(mism);
		vf_obs(c);
		if (mism)
			vf_violation("free-running|result-differs", "%s: %ld iteration(s) gave a token or verdict different from the sequential run", run_name(c), mism);
		/* ThreadSanitizer writes its reports to VF_TSAN_LOG.<pid> */
		const char *lp = getenv("VF_TSAN_LOG");
		if (lp) {
			char path[600];
			snprintf(path, sizeof path, "%s.%d", lp, (int)getpid());
			size_t n = 0;
			char *txt = vf_readfile(path, &n);
			if (txt && strstr(txt, "ThreadSanitizer: data race")) {
				/* first frame inside libjwt */
				char fn[128] = "?";
				char *p = strstr(txt, "/libjwt/");
				if (p) {
					/* frame lines look like "    #1 function /path/libjwt/file.c:12:3 (binary+0x...)" */
					char *line = p;
					while (line > txt && line[-1] != '\n')
						line--;
					char *hash = strchr(line, '#');
					if (hash && hash < p)
						sscanf(hash, "#%*d %127s", fn);
				}
				char key[200];
				snprintf(key, sizeof key, "tsan|data-race|%s", fn);
				vf_violation(key, "ThreadSanitizer reported a data race while running the %s bodies: %.1500s", run_name(c), strstr(txt, "WARNING: ThreadSanitizer"));
				/* start a fresh log for the next configuration */
				FILE *f = fopen(path, "w");
				if (f)
					fclose(f);
			}
			free(txt);
		}
		vf_nontrivial_case();
	}
}

/* ------------------------------------------------------------------ enumeration */
static void enumerate(void)
{
	int provider = (int)(vf_param & 1);
	if (vf_param < 8 && !rc_track_alloc()) {
		fprintf(stderr, "conc: libcrypto allocator seam not available\n");
		exit(2);
	}
	vk_load();
	vf_now = T0;
	if (vf_param < 8)
		rc_rng_install();   /* the harness DRBG is single-threaded: the free-running pass keeps libcrypto's own RNG */
	if (vf_param >= 8) {
		enumerate_free_running(provider);
		return;
	}
	vf_alloc_install();
	lj_select_provider(provider);
	setup();
	alarm(45);   /* one thread alone cannot wait for anybody: a stall here is a stall of the library */
	sequential_reference();
	alarm(0);
	vf_alloc_hook = alloc_point;
	vf_time_hook = time_point;
	rc_alloc_hook = time_point;
	for (int c = 0; c < NCFG + NMIX; c++) {
		int maxthr = (vf_thorough && c == 0) ? 3 : 2;
		for (int nthr = 2; nthr <= maxthr; nthr++) {
			int bound = vf_thorough && nthr == 2 && c <= NCFG ? 2 : 1;
			/* roots: which thread starts is a free choice (no thread is running yet).  For every root the execution without
			 * further deviation defines the top-level branches; every shard recomputes it (deterministic, a few ms). */
			for (int rw = 0; rw < 2 * nthr; rw++) {
				int root = rw % nthr;
				warm_ring = rw / nthr;
				int rootpfx[1] = { root };
				exec_t *x0 = malloc(sizeof *x0);
				run_schedule(c, nthr, rootpfx, 1, x0);
				if (vf_case("%s [%s] %d threads on a %s keyring, thread %d starts: schedule without preemptions (%d scheduling points)", run_name(c),
					    lj_provider_name(provider), nthr, warm_ring ? "used" : "fresh", root, x0->n)) {
					check_exec(c, nthr, x0);
					/* determinism: the same schedule twice gives the same points and observations */
					exec_t *x1 = malloc(sizeof *x1);
					run_schedule(c, nthr, rootpfx, 1, x1);
					if (x1->n != x0->n || (CFG[thread_cfg(c, 0)].deterministic && x0->obs[0].tok && x1->obs[0].tok && strcmp(x0->obs[0].tok, x1->obs[0].tok)))
						vf_violation("harness|nondeterministic-schedule", "%s: two runs of the same schedule differ (%d vs %d points)", run_name(c), x0->n, x1->n);
					for (int t = 0; t < nthr; t++)
						obs_free(&x1->obs[t]);
					free(x1);
					vf_nontrivial_case();
				}
				for (int i = 1; i < x0->n; i++) {
					int cost = x0->pts[i].running_enabled ? 1 : 0;
					if (cost > bound)
						continue;
					for (int alt = 1; alt < x0->pts[i].n_enabled; alt++) {
						if (!vf_case("%s [%s] %d threads on a %s keyring, thread %d starts, bound %d: first deviation at point %d (choice %d), then every schedule within the bound",
							     run_name(c), lj_provider_name(provider), nthr, warm_ring ? "used" : "fresh", root, bound, i, alt))
							continue;
						int *pfx = malloc(sizeof(int) * (i + 1));
						memcpy(pfx, x0->ch, sizeof(int) * i);
						pfx[i] = alt;
						exec_t *y = malloc(sizeof *y);
						run_schedule(c, nthr, pfx, i + 1, y);
						check_exec(c, nthr, y);
						explore(c, nthr, y, i + 1, bound);
						for (int t = 0; t < nthr; t++)
							obs_free(&y->obs[t]);
						free(y);
						free(pfx);
						vf_nontrivial_case();
					}
				}
				for (int t = 0; t < nthr; t++)
					obs_free(&x0->obs[t]);
				free(x0);
			}
		}
	}
	vf_alloc_hook = NULL;
	vf_time_hook = NULL;
	rc_alloc_hook = NULL;
	vf_count("evaluations", n_exec);
	vf_count("states", n_exec);
	vf_count("transitions", n_points_total);
	vf_count("schedules_with_real_alternation", n_interleaved);
	vf_count("=max_scheduling_points", n_points_max);
	vf_count("=sequential_bodies_not_as_designed", seq_odd);
}

int main(int argc, char **argv)
{
	return vf_main(argc, argv, enumerate);
}
