/* seq -- explicit-state search over API call histories on real objects.
 *   C15: header/claim set/get/del behave as a typed map (reference model ref_map)
 *   C13: no hidden state on reused checkers / builders (differential vs fresh object)
 *   C14: error-reporting contract over a catalogue of failure causes x depth-2 histories */
#include "vf.h"
#include "keys.h"
#include "tok.h"
#include <limits.h>

static const time_t T0 = 1700000000;

/* ================================================================== C15: ref_map */
typedef struct {
	int kind;          /* 0 set, 1 get, 2 del, 3 copy: get `name`, then set `sval` (another name) to the value just read, same jwt_value_t */
	jwt_value_type_t type;
	const char *name;  /* may be NULL or "" */
	long ival;
	const char *sval;  /* STR value or JSON text; may be NULL */
	int bval;
	int replace;
	char label[96];
} mop_t;

static mop_t MOPS[512];
static int NMOPS;

static const char *NAMES[] = { "a", "b", "", NULL };
static const char *nm(const char *n) { return n ? (*n ? n : "\"\"") : "NULL"; }

static void build_mops(void)
{
	static const long ints[] = { 0, -1, LONG_MAX };
	static const char *strs[] = { "x", "", NULL, "\xff\xfe" };   /* the last: text that is not UTF-8, which no JSON string can hold */
	static const int bools[] = { 0, 1, 2 };
	static const char *jsons[] = { "{\"a\":1}", "{\"a\":{\"b\":2},\"c\":1.5}", "[1]", "{", "5", NULL, "{\"a\":1,\"a\":2}", "{}", "{\"a\":null,\"b\":null}" };
	for (int n = 0; n < 4; n++) {
		for (int r = 0; r < 2; r++) {
			for (int i = 0; i < 3; i++) {
				mop_t *m = &MOPS[NMOPS++];
				*m = (mop_t){ 0, JWT_VALUE_INT, NAMES[n], ints[i], NULL, 0, r, "" };
				snprintf(m->label, sizeof m->label, "set_int(%s,%ld%s)", nm(NAMES[n]), ints[i], r ? ",replace" : "");
			}
			for (int i = 0; i < 4; i++) {
				mop_t *m = &MOPS[NMOPS++];
				*m = (mop_t){ 0, JWT_VALUE_STR, NAMES[n], 0, strs[i], 0, r, "" };
				snprintf(m->label, sizeof m->label, "set_str(%s,%s%s)", nm(NAMES[n]), i == 3 ? "<not UTF-8>" : strs[i] ? (*strs[i] ? strs[i] : "\"\"") : "NULL", r ? ",replace" : "");
			}
			for (int i = 0; i < 3; i++) {
				mop_t *m = &MOPS[NMOPS++];
				*m = (mop_t){ 0, JWT_VALUE_BOOL, NAMES[n], 0, NULL, bools[i], r, "" };
				snprintf(m->label, sizeof m->label, "set_bool(%s,%d%s)", nm(NAMES[n]), bools[i], r ? ",replace" : "");
			}
			for (unsigned i = 0; i < sizeof jsons / sizeof *jsons; i++) {
				mop_t *m = &MOPS[NMOPS++];
				*m = (mop_t){ 0, JWT_VALUE_JSON, NAMES[n], 0, jsons[i], 0, r, "" };
				snprintf(m->label, sizeof m->label, "set_json(%s,%s%s)", nm(NAMES[n]), jsons[i] ? jsons[i] : "NULL", r ? ",replace" : "");
			}
		}
		static const jwt_value_type_t gt[] = { JWT_VALUE_INT, JWT_VALUE_STR, JWT_VALUE_BOOL, JWT_VALUE_JSON };
		static const char *gn[] = { "int", "str", "bool", "json" };
		for (int t = 0; t < 4; t++) {
			mop_t *m = &MOPS[NMOPS++];
			*m = (mop_t){ 1, gt[t], NAMES[n], 0, NULL, 0, 0, "" };
			snprintf(m->label, sizeof m->label, "get_%s(%s)", gn[t], nm(NAMES[n]));
		}
		mop_t *m = &MOPS[NMOPS++];
		*m = (mop_t){ 2, JWT_VALUE_NONE, NAMES[n], 0, NULL, 0, 0, "" };
		snprintf(m->label, sizeof m->label, "del(%s)", nm(NAMES[n]));
	}
	/* read a member and store what was read under the other name, through one jwt_value_t and the initialiser macros
	 * (the macro's value argument is a field of the structure it initialises) */
	static const jwt_value_type_t ct[] = { JWT_VALUE_INT, JWT_VALUE_STR, JWT_VALUE_BOOL };
	static const char *cn[] = { "int", "str", "bool" };
	for (int t = 0; t < 3; t++)
		for (int d = 0; d < 2; d++) {
			mop_t *m = &MOPS[NMOPS++];
			*m = (mop_t){ 3, ct[t], d ? "b" : "a", 0, d ? "a" : "b", 0, 1, "" };
			snprintf(m->label, sizeof m->label, "copy_%s(%s->%s,replace)", cn[t], m->name, m->sval);
		}
}

/* result of one operation as seen through the API */
typedef struct {
	int rc;         /* returned code */
	int verr;       /* value.error after the call (-1 for del) */
	char got[256];  /* rendered value for successful gets */
} mres_t;

static char *dump(json_t *j) { return tok_jdump(j, JSON_SORT_KEYS | JSON_COMPACT | JSON_ENCODE_ANY); }

/* the reference model: state is a json object owned by the caller */
static void model_apply(json_t *st, const mop_t *op, mres_t *r)
{
	memset(r, 0, sizeof *r);
	int has_name = op->name && *op->name;
	if (op->kind == 2) {
		r->verr = -1;
		if (has_name)
			json_object_del(st, op->name);
		else
			json_object_clear(st);
		r->rc = JWT_VALUE_ERR_NONE;
		return;
	}
	if (op->kind == 3) {
		json_t *v = json_object_get(st, op->name);
		int ok = v && (op->type == JWT_VALUE_INT ? json_is_integer(v) : op->type == JWT_VALUE_STR ? json_is_string(v) : json_is_boolean(v));
		if (!v)
			r->rc = JWT_VALUE_ERR_NOEXIST;
		else if (!ok)
			r->rc = JWT_VALUE_ERR_TYPE;
		else
			json_object_set_new(st, op->sval, json_deep_copy(v));
		r->verr = r->rc;
		return;
	}
	if (op->kind == 1) {
		json_t *v = has_name ? json_object_get(st, op->name) : NULL;
		if (op->type == JWT_VALUE_JSON) {
			if (!has_name)
				v = st;
			if (!v)
				r->rc = JWT_VALUE_ERR_NOEXIST;
			else if (!json_is_object(v) && !json_is_array(v))
				r->rc = JWT_VALUE_ERR_TYPE;
			else {
				char *d = dump(v);
				snprintf(r->got, sizeof r->got, "%s", d);
				free(d);
			}
		} else if (!has_name)
			r->rc = JWT_VALUE_ERR_INVALID;
		else if (!v)
			r->rc = JWT_VALUE_ERR_NOEXIST;
		else if (op->type == JWT_VALUE_INT) {
			if (!json_is_integer(v)) r->rc = JWT_VALUE_ERR_TYPE;
			else snprintf(r->got, sizeof r->got, "%lld", (long long)json_integer_value(v));
		} else if (op->type == JWT_VALUE_STR) {
			if (!json_is_string(v)) r->rc = JWT_VALUE_ERR_TYPE;
			else snprintf(r->got, sizeof r->got, "s:%s", json_string_value(v));
		} else {
			if (!json_is_boolean(v)) r->rc = JWT_VALUE_ERR_TYPE;
			else snprintf(r->got, sizeof r->got, "%d", json_is_true(v) ? 1 : 0);
		}
		r->verr = r->rc;
		return;
	}
	/* set */
	json_t *nv = NULL;
	if (op->type == JWT_VALUE_JSON) {
		json_t *parsed = op->sval ? json_loads(op->sval, JSON_REJECT_DUPLICATES, NULL) : NULL;
		if (!parsed || (!json_is_object(parsed) && !json_is_array(parsed))) {
			json_decref(parsed);
			r->rc = r->verr = JWT_VALUE_ERR_INVALID;
			return;
		}
		if (!has_name) {
			if (!json_is_object(parsed)) {
				json_decref(parsed);
				r->rc = r->verr = JWT_VALUE_ERR_INVALID;
				return;
			}
			const char *k;
			json_t *v;
			json_object_foreach(parsed, k, v) {
				if (op->replace || !json_object_get(st, k))
					json_object_set(st, k, v);
			}
			json_decref(parsed);
			return;
		}
		nv = parsed;
	} else {
		if (!has_name || (op->type == JWT_VALUE_STR && !op->sval)) {
			r->rc = r->verr = JWT_VALUE_ERR_INVALID;
			return;
		}
		if (op->type == JWT_VALUE_INT) nv = json_integer(op->ival);
		else if (op->type == JWT_VALUE_STR) nv = json_string(op->sval);
		else nv = json_boolean(op->bval);
	}
	if (json_object_get(st, op->name) && !op->replace) {
		json_decref(nv);
		r->rc = r->verr = JWT_VALUE_ERR_EXIST;
		return;
	}
	if (!nv) {
		/* a value no JSON string can hold (text that is not UTF-8): refused, and a refused operation changes nothing */
		r->rc = r->verr = JWT_VALUE_ERR_INVALID;
		return;
	}
	json_object_set_new(st, op->name, nv);
}

/* ---- receivers ---- */
/* the last two: the token of a builder that already holds {"a":5,"b":"y"} -- the map starts non-empty, and whatever the callback does to the
 * token, the builder's own map reads back unchanged afterwards */
enum { RCV_BH, RCV_BC, RCV_JBH, RCV_JBC, RCV_JCH, RCV_JCC, RCV_JBH2, RCV_JBC2, NRCV };
static const char *rcv_name[NRCV] = { "builder-headers", "builder-claims", "jwt_t-in-builder-callback/headers", "jwt_t-in-builder-callback/claims",
				      "jwt_t-in-checker-callback/headers", "jwt_t-in-checker-callback/claims",
				      "jwt_t-in-callback-of-a-filled-builder/headers", "jwt_t-in-callback-of-a-filled-builder/claims" };
static const char FILLED[] = "{\"a\":5,\"b\":\"y\"}";

typedef struct {
	int rcv;
	const int *ops;
	int nops;
	mres_t *res;      /* per-op results */
	char *final_dump;
	jwt_builder_t *b;
	int ran;
} mrun_t;

/* A caller may reuse one jwt_value_t for several calls, editing only name/value/replace: the error code of an earlier
 * call is then still in the structure.  In every second case the harness leaves such a stale code behind. */
static int stale_error;
#define POISON(v) do { if (stale_error) (v).error = (jwt_value_error_t)stale_error; } while (0)

static void impl_apply(mrun_t *run, jwt_t *jwt, const mop_t *op, mres_t *r)
{
	jwt_value_t v;
	memset(&v, 0, sizeof v);
	memset(r, 0, sizeof *r);
	int hdr = run->rcv == RCV_BH || run->rcv == RCV_JBH || run->rcv == RCV_JCH || run->rcv == RCV_JBH2;
	if (op->kind == 2) {
		r->verr = -1;
		if (jwt)
			r->rc = hdr ? jwt_header_del(jwt, op->name) : jwt_claim_del(jwt, op->name);
		else
			r->rc = hdr ? jwt_builder_header_del(run->b, op->name) : jwt_builder_claim_del(run->b, op->name);
		return;
	}
	if (op->kind == 3) {
		switch (op->type) {
		case JWT_VALUE_INT: jwt_set_GET_INT(&v, op->name); break;
		case JWT_VALUE_STR: jwt_set_GET_STR(&v, op->name); break;
		default: jwt_set_GET_BOOL(&v, op->name); break;
		}
		POISON(v);
		if (jwt)
			r->rc = hdr ? jwt_header_get(jwt, &v) : jwt_claim_get(jwt, &v);
		else
			r->rc = hdr ? jwt_builder_header_get(run->b, &v) : jwt_builder_claim_get(run->b, &v);
		r->verr = v.error;
		if (r->rc != JWT_VALUE_ERR_NONE)
			return;
		switch (op->type) {
		case JWT_VALUE_INT: jwt_set_SET_INT(&v, op->sval, v.int_val); break;
		case JWT_VALUE_STR: jwt_set_SET_STR(&v, op->sval, v.str_val); break;
		default: jwt_set_SET_BOOL(&v, op->sval, v.bool_val); break;
		}
		v.replace = 1;
		if (jwt)
			r->rc = hdr ? jwt_header_set(jwt, &v) : jwt_claim_set(jwt, &v);
		else
			r->rc = hdr ? jwt_builder_header_set(run->b, &v) : jwt_builder_claim_set(run->b, &v);
		r->verr = v.error;
		return;
	}
	if (op->kind == 1) {
		switch (op->type) {
		case JWT_VALUE_INT: jwt_set_GET_INT(&v, op->name); break;
		case JWT_VALUE_STR: jwt_set_GET_STR(&v, op->name); break;
		case JWT_VALUE_BOOL: jwt_set_GET_BOOL(&v, op->name); break;
		default: jwt_set_GET_JSON(&v, op->name); break;
		}
		POISON(v);
		if (jwt)
			r->rc = hdr ? jwt_header_get(jwt, &v) : jwt_claim_get(jwt, &v);
		else
			r->rc = hdr ? jwt_builder_header_get(run->b, &v) : jwt_builder_claim_get(run->b, &v);
		r->verr = v.error;
		if (r->rc == JWT_VALUE_ERR_NONE) {
			switch (op->type) {
			case JWT_VALUE_INT: snprintf(r->got, sizeof r->got, "%ld", v.int_val); break;
			case JWT_VALUE_STR: snprintf(r->got, sizeof r->got, "s:%s", v.str_val ? v.str_val : "(null)"); break;
			case JWT_VALUE_BOOL: snprintf(r->got, sizeof r->got, "%d", v.bool_val); break;
			default: snprintf(r->got, sizeof r->got, "%s", v.json_val ? v.json_val : "(null)"); break;
			}
		}
		if (op->type == JWT_VALUE_JSON && v.json_val)
			free(v.json_val);
		return;
	}
	char *jtxt = NULL;
	switch (op->type) {
	case JWT_VALUE_INT: jwt_set_SET_INT(&v, op->name, op->ival); break;
	case JWT_VALUE_STR: jwt_set_SET_STR(&v, op->name, op->sval); break;
	case JWT_VALUE_BOOL: jwt_set_SET_BOOL(&v, op->name, op->bval); break;
	default:
		jtxt = op->sval ? strdup(op->sval) : NULL;
		jwt_set_SET_JSON(&v, op->name, jtxt);
		break;
	}
	v.replace = op->replace;
	POISON(v);
	if (jwt)
		r->rc = hdr ? jwt_header_set(jwt, &v) : jwt_claim_set(jwt, &v);
	else
		r->rc = hdr ? jwt_builder_header_set(run->b, &v) : jwt_builder_claim_set(run->b, &v);
	r->verr = v.error;
	free(jtxt);
}

static void whole_dump(mrun_t *run, jwt_t *jwt)
{
	jwt_value_t v;
	int hdr = run->rcv == RCV_BH || run->rcv == RCV_JBH || run->rcv == RCV_JCH || run->rcv == RCV_JBH2;
	jwt_set_GET_JSON(&v, NULL);
	int rc;
	if (jwt)
		rc = hdr ? jwt_header_get(jwt, &v) : jwt_claim_get(jwt, &v);
	else
		rc = hdr ? jwt_builder_header_get(run->b, &v) : jwt_builder_claim_get(run->b, &v);
	run->final_dump = rc == JWT_VALUE_ERR_NONE && v.json_val ? strdup(v.json_val) : strdup("(get failed)");
	if (v.json_val)
		free(v.json_val);
}

static int map_cb(jwt_t *jwt, jwt_config_t *cfg)
{
	mrun_t *run = cfg->ctx;
	run->ran = 1;
	for (int i = 0; i < run->nops; i++)
		impl_apply(run, jwt, &MOPS[run->ops[i]], &run->res[i]);
	whole_dump(run, jwt);
	return 0;
}

/* initial map contents per receiver */
static json_t *rcv_initial(int rcv)
{
	if (rcv == RCV_JCH)
		return json_loads("{\"alg\":\"none\",\"h\":true}", 0, NULL);
	if (rcv == RCV_JCC)
		return json_loads("{\"c\":\"tok\"}", 0, NULL);
	if (rcv == RCV_JBH2 || rcv == RCV_JBC2)
		return json_loads(FILLED, 0, NULL);
	return json_object();
}

static void impl_run(mrun_t *run)
{
	run->ran = 0;
	run->final_dump = NULL;
	if (run->rcv == RCV_BH || run->rcv == RCV_BC) {
		run->b = jwt_builder_new();
		for (int i = 0; i < run->nops; i++)
			impl_apply(run, NULL, &MOPS[run->ops[i]], &run->res[i]);
		whole_dump(run, NULL);
		jwt_builder_free(run->b);
		run->ran = 1;
	} else if (run->rcv == RCV_JBH || run->rcv == RCV_JBC) {
		jwt_builder_t *b = jwt_builder_new();
		jwt_builder_enable_iat(b, 0);
		jwt_builder_setcb(b, map_cb, run);
		char *t = jwt_builder_generate(b);
		free(t);
		jwt_builder_free(b);
	} else if (run->rcv == RCV_JBH2 || run->rcv == RCV_JBC2) {
		jwt_builder_t *b = jwt_builder_new();
		jwt_value_t v;
		int hdr = run->rcv == RCV_JBH2;
		jwt_builder_enable_iat(b, 0);
		jwt_set_SET_INT(&v, "a", 5);
		hdr ? jwt_builder_header_set(b, &v) : jwt_builder_claim_set(b, &v);
		jwt_set_SET_STR(&v, "b", "y");
		hdr ? jwt_builder_header_set(b, &v) : jwt_builder_claim_set(b, &v);
		jwt_builder_setcb(b, map_cb, run);
		char *t = jwt_builder_generate(b);
		vf_lfree(t);
		/* the builder's own map is what it was */
		jwt_set_GET_JSON(&v, NULL);
		int rc = hdr ? jwt_builder_header_get(b, &v) : jwt_builder_claim_get(b, &v);
		json_t *got = rc == JWT_VALUE_ERR_NONE && v.json_val ? json_loads(v.json_val, 0, NULL) : NULL, *want = json_loads(FILLED, 0, NULL);
		if (!got || !json_equal(got, want))
			vf_violation("map|builder-changed-through-its-token", "%s: the builder held %s; after generating a token whose callback ran its own sets and deletes on the token, it holds %s",
				     rcv_name[run->rcv], FILLED, v.json_val ? v.json_val : "(get failed)");
		if (v.json_val)
			vf_lfree(v.json_val);
		json_decref(got);
		json_decref(want);
		jwt_builder_free(b);
	} else {
		jwt_checker_t *c = jwt_checker_new();
		jwt_checker_setcb(c, map_cb, run);
		char *input = tok_signing_input("{\"alg\":\"none\",\"h\":true}", "{\"c\":\"tok\"}");
		char tok[256];
		snprintf(tok, sizeof tok, "%s.", input);
		jwt_checker_verify(c, tok);
		free(input);
		jwt_checker_free(c);
	}
}

/* ---- BFS over the model ---- */
typedef struct {
	char *canon;
	int parent, op, depth;
} mstate_t;

static mstate_t *MS;
static int NMS, MSCAP;
static int *mhash;
static int MHCAP;

static int ms_find_or_add(const char *canon, int parent, int op, int depth, int *added)
{
	uint64_t h = vf_hash_str(canon);
	int i = h & (MHCAP - 1);
	while (mhash[i] >= 0) {
		if (!strcmp(MS[mhash[i]].canon, canon)) {
			*added = 0;
			return mhash[i];
		}
		i = (i + 1) & (MHCAP - 1);
	}
	if (NMS == MSCAP) {
		fprintf(stderr, "seq: state table full\n");
		exit(2);
	}
	MS[NMS] = (mstate_t){ strdup(canon), parent, op, depth };
	mhash[i] = NMS;
	*added = 1;
	return NMS++;
}

static int ms_history(int id, int *ops)
{
	int n = 0, tmp[16];
	while (MS[id].parent >= 0) {
		tmp[n++] = MS[id].op;
		id = MS[id].parent;
	}
	for (int i = 0; i < n; i++)
		ops[i] = tmp[n - 1 - i];
	return n;
}

static const char *mhist_str(const int *ops, int n)
{
	static char b[900];
	size_t o = 0;
	b[0] = 0;
	for (int i = 0; i < n && o < sizeof b - 100; i++)
		o += snprintf(b + o, sizeof b - o, "%s%s", i ? "; " : "", MOPS[ops[i]].label);
	return b;
}

static long c15_transitions, c15_checked_calls, c15_closed, c15_maxdepth;

static void c15_for_receiver(int rcv, int maxdepth)
{
	/* BFS over model states from this receiver's initial map */
	for (int i = 0; i < MHCAP; i++)
		mhash[i] = -1;
	for (int i = 0; i < NMS; i++)
		free(MS[i].canon);
	NMS = 0;
	json_t *init = rcv_initial(rcv);
	char *ic = dump(init);
	int added;
	ms_find_or_add(ic, -1, -1, 0, &added);
	free(ic);
	int cur;
	for (cur = 0; cur < NMS; cur++) {
		int depth = MS[cur].depth;
		if (depth >= maxdepth)
			break;
		if (depth + 1 > c15_maxdepth)
			c15_maxdepth = depth + 1;
		int hops[16];
		int hn = ms_history(cur, hops);
		for (int op = 0; op < NMOPS; op++) {
			/* model: successor state */
			json_t *st = json_loads(MS[cur].canon, 0, NULL);
			mres_t mr;
			model_apply(st, &MOPS[op], &mr);
			char *canon = dump(st);
			ms_find_or_add(canon, cur, op, depth + 1, &added);
			c15_transitions++;
			if (vf_case("%s: [%s] then %s", rcv_name[rcv], mhist_str(hops, hn), MOPS[op].label)) {
				stale_error = (vf_case_index() & 1) ? 1 + (int)(vf_case_index() / 2 % 4) : 0;
				/* implementation: fresh receiver, replay history + op, compare every step with the model */
				int ops[16];
				memcpy(ops, hops, sizeof(int) * hn);
				ops[hn] = op;
				mres_t res[16];
				mrun_t run = { rcv, ops, hn + 1, res, NULL, NULL, 0 };
				impl_run(&run);
				if (!run.ran)
					vf_violation("harness|callback-not-run", "receiver %s: callback did not run", rcv_name[rcv]);
				else {
					json_t *m = rcv_initial(rcv);
					for (int i = 0; i <= hn; i++) {
						mres_t want;
						char *before = dump(m);
						model_apply(m, &MOPS[ops[i]], &want);
						c15_checked_calls++;
						const mop_t *o = &MOPS[ops[i]];
						const char *kname = o->kind == 0 ? "set" : o->kind == 1 ? "get" : o->kind == 3 ? "copy" : "del";
						if (res[i].rc != want.rc) {
							char key[96];
							snprintf(key, sizeof key, "map|%s-returns-%d-model-%d", kname, res[i].rc, want.rc);
							vf_violation(key, "%s: step %d %s returned %d, model %d; map before=%s; history=[%s]", rcv_name[rcv], i, o->label,
								     res[i].rc, want.rc, before, mhist_str(ops, hn + 1));
						} else if (res[i].verr != want.verr && want.verr != -1)
							vf_violation("map|return-differs-from-value.error", "%s: step %d %s returned %d but value.error=%d", rcv_name[rcv], i,
								     o->label, res[i].rc, res[i].verr);
						else if (want.rc == JWT_VALUE_ERR_NONE && o->kind == 1 && strcmp(res[i].got, want.got))
							vf_violation("map|get-value-differs", "%s: step %d %s got %s, model %s; history=[%s]", rcv_name[rcv], i, o->label,
								     res[i].got, want.got, mhist_str(ops, hn + 1));
						free(before);
					}
					char *md = dump(m);
					if (strcmp(md, run.final_dump)) {
						char key[96];
						const mop_t *o = &MOPS[op];
						snprintf(key, sizeof key, "map|state-differs-after-%s", o->kind == 0 ? (o->type == JWT_VALUE_JSON ? "set_json" : "set") : o->kind == 1 ? "get" : o->kind == 3 ? "copy" : "del");
						vf_violation(key, "%s: after [%s] the map is %s, model %s", rcv_name[rcv], mhist_str(ops, hn + 1), run.final_dump, md);
					}
					vf_obs(vf_hash_mix(vf_hash_str(md), res[hn].rc));
					if (strcmp(md, MS[cur].canon))
						vf_nontrivial_case();   /* the operation changed the map */
					free(md);
					json_decref(m);
				}
				free(run.final_dump);
			}
			free(canon);
			json_decref(st);
		}
	}
	if (cur == NMS)
		c15_closed++;   /* every reachable state was expanded: the frontier closed below the depth bound */
	json_decref(init);
}

static void enumerate_c15(void)
{
	build_mops();
	MSCAP = 1 << 20;
	MHCAP = 1 << 21;
	MS = calloc(MSCAP, sizeof *MS);
	mhash = malloc(sizeof(int) * MHCAP);
	int maxdepth = vf_thorough ? 12 : 3;
	long states = 0;
	for (int rcv = 0; rcv < NRCV; rcv++) {
		c15_for_receiver(rcv, maxdepth);
		states += NMS;
	}
	vf_count("=states", states);
	vf_count("=transitions", c15_transitions);
	vf_count("=alphabet", NMOPS);
	vf_count("=receivers_with_closed_frontier", c15_closed);
	vf_count("=max_history_length", c15_maxdepth);
	vf_count("evaluations", c15_checked_calls);
}

/* ================================================================== C13: no hidden state */
static unsigned char K32[32], K32B[32];
static jwk_set_t *ring;            /* shared keyring: oct (kid h1), oct-B (kid h2), P-256 public (kid e1) */
static const jwk_item_t *it_h1, *it_h2, *it_e1, *it_e1priv;
static jwk_set_t *ring_priv;

static char *mk_hs(const char *hjson, const char *pjson, const unsigned char *key, jwt_alg_t alg, int flip)
{
	char *input = tok_signing_input(hjson, pjson);
	unsigned char mac[64];
	size_t l = rc_hmac(alg, key, 32, input, strlen(input), mac);
	if (flip)
		mac[3] ^= 1;
	char *t = tok_attach(input, mac, l);
	free(input);
	return t;
}
static char *mk_es(const char *hjson, const char *pjson, int flip)
{
	char *input = tok_signing_input(hjson, pjson);
	unsigned char *sig;
	size_t sl;
	rc_sign(vk_get("p256a"), JWT_ALG_ES256, input, strlen(input), &sig, &sl);
	if (flip)
		sig[7] ^= 1;
	char *t = tok_attach(input, sig, sl);
	free(sig);
	free(input);
	return t;
}
static char *mk_none(const char *pjson)
{
	char *input = tok_signing_input("{\"alg\":\"none\"}", pjson);
	char *t = malloc(strlen(input) + 2);
	sprintf(t, "%s.", input);
	free(input);
	return t;
}

#define NTOK 11
static char *CTOK[8][NTOK];
static const char *ctok_name[NTOK] = { "valid", "valid2", "expires-at-T0+100", "bad-signature", "wrong-alg", "no-dot", "bad-b64-header",
				       "header-without-alg", "unsigned-none", "empty-string", "NULL" };
enum { CC_NOKEY, CC_HS, CC_ES_ISS, CC_CB_KID, CC_CB_KID_LENIENT, CC_CB_EDIT, CC_CB_CTX, CC_LEEWAY_MAX, NCC };
static const char *cc_name[NCC] = { "no-key", "HS256-key", "ES256-pubkey+iss", "callback-selects-key-by-kid", "callback-selects-key-by-kid-or-leaves-config-untouched",
				    "HS256-key+iss+callback-that-edits-the-token", "callback-selects-key-by-kid-and-overwrites-config->ctx",
				    "no-key+largest-leeways (time_leeway(EXP, LONG_MAX), time_leeway(NBF, LONG_MAX))" };

static int kid_cb(jwt_t *jwt, jwt_config_t *cfg)
{
	jwt_value_t v;
	jwt_set_GET_STR(&v, "kid");
	if (jwt_header_get(jwt, &v) != JWT_VALUE_ERR_NONE)
		return 1;
	jwk_item_t *it = jwks_find_bykid((jwk_set_t *)cfg->ctx, v.str_val);
	if (!it)
		return 1;
	cfg->key = it;
	cfg->alg = jwks_item_alg(it);
	return 0;
}

/* like kid_cb, but a token without a (known) kid leaves the config untouched and lets verification proceed */
static int kid_lenient_cb(jwt_t *jwt, jwt_config_t *cfg)
{
	jwt_value_t v;
	jwt_set_GET_STR(&v, "kid");
	if (jwt_header_get(jwt, &v) != JWT_VALUE_ERR_NONE)
		return 0;
	jwk_item_t *it = jwks_find_bykid((jwk_set_t *)cfg->ctx, v.str_val);
	if (!it)
		return 0;
	cfg->key = it;
	cfg->alg = jwks_item_alg(it);
	return 0;
}

/* edits everything it is handed (the library discards the edits after the call; nothing of them may outlive it) */
static int edit_cb(jwt_t *jwt, jwt_config_t *cfg)
{
	jwt_value_t v;
	(void)cfg;
	jwt_header_del(jwt, "alg");
	jwt_set_SET_STR(&v, "kid", "edited"); v.replace = 1; jwt_header_set(jwt, &v);
	jwt_claim_del(jwt, "iss");
	jwt_set_SET_INT(&v, "exp", 1000); v.replace = 1; jwt_claim_set(jwt, &v);
	jwt_set_SET_INT(&v, "nbf", 4000000000L); v.replace = 1; jwt_claim_set(jwt, &v);
	return 0;
}

/* selects the key by kid through its context (the keyring), then uses config->ctx as scratch space: the change is to the
 * per-call copy of the configuration and must not be there at the next call */
static int ctx_cb(jwt_t *jwt, jwt_config_t *cfg)
{
	jwt_value_t v;
	jwk_set_t *set = cfg->ctx;
	if (set != ring)
		return 0;   /* context lost: no key is selected (a keyed token is then refused for lack of a key) */
	cfg->ctx = NULL;
	jwt_set_GET_STR(&v, "kid");
	if (jwt_header_get(jwt, &v) != JWT_VALUE_ERR_NONE)
		return 0;
	jwk_item_t *it = jwks_find_bykid(set, v.str_val);
	if (!it)
		return 0;
	cfg->key = it;
	cfg->alg = jwks_item_alg(it);
	return 0;
}

static jwt_checker_t *cc_checker(int cc)
{
	jwt_checker_t *c = jwt_checker_new();
	switch (cc) {
	case CC_HS: jwt_checker_setkey(c, JWT_ALG_HS256, it_h1); break;
	case CC_ES_ISS:
		jwt_checker_setkey(c, JWT_ALG_ES256, it_e1);
		jwt_checker_claim_set(c, JWT_CLAIM_ISS, "good");
		break;
	case CC_CB_KID: jwt_checker_setcb(c, kid_cb, ring); break;
	case CC_CB_KID_LENIENT: jwt_checker_setcb(c, kid_lenient_cb, ring); break;
	case CC_CB_CTX: jwt_checker_setcb(c, ctx_cb, ring); break;
	case CC_LEEWAY_MAX:
		jwt_checker_time_leeway(c, JWT_CLAIM_EXP, LONG_MAX);
		jwt_checker_time_leeway(c, JWT_CLAIM_NBF, LONG_MAX);
		break;
	case CC_CB_EDIT:
		jwt_checker_setkey(c, JWT_ALG_HS256, it_h1);
		jwt_checker_claim_set(c, JWT_CLAIM_ISS, "good");
		jwt_checker_setcb(c, edit_cb, NULL);
		break;
	}
	return c;
}

static void c13_setup(void)
{
	vk_oct_bytes(11, K32, 32);
	vk_oct_bytes(12, K32B, 32);
	char *a = vk_oct_jwk(K32, 32, "HS256", "h1"), *b = vk_oct_jwk(K32B, 32, "HS256", "h2");
	char *e = vk_jwk_text(vk_get("p256a"), 0, "ES256", "e1"), *ep = vk_jwk_text(vk_get("p256a"), 1, "ES256", "e1");
	char doc[8192];
	snprintf(doc, sizeof doc, "{\"keys\":[%s,%s,%s]}", a, b, e);
	ring = jwks_create(doc);
	it_h1 = jwks_item_get(ring, 0);
	it_h2 = jwks_item_get(ring, 1);
	it_e1 = jwks_item_get(ring, 2);
	ring_priv = jwks_create(ep);
	it_e1priv = jwks_item_get(ring_priv, 0);
	free(a); free(b); free(e); free(ep);
	rc_rng_reseed(4242);
	const char *P1 = "{\"iss\":\"good\",\"n\":1}", *P2 = "{\"iss\":\"good\",\"n\":2}", *PX = "{\"iss\":\"good\",\"exp\":1700000100}";
	/* no-key checker: unsigned tokens are the valid ones */
	CTOK[CC_NOKEY][0] = mk_none(P1); CTOK[CC_NOKEY][1] = mk_none(P2); CTOK[CC_NOKEY][2] = mk_none(PX);
	CTOK[CC_NOKEY][3] = mk_hs("{\"alg\":\"HS256\"}", P1, K32, JWT_ALG_HS256, 1);
	CTOK[CC_NOKEY][4] = mk_hs("{\"alg\":\"HS256\"}", P1, K32, JWT_ALG_HS256, 0);
	/* HS256 key */
	CTOK[CC_HS][0] = mk_hs("{\"alg\":\"HS256\"}", P1, K32, JWT_ALG_HS256, 0);
	CTOK[CC_HS][1] = mk_hs("{\"alg\":\"HS256\"}", P2, K32, JWT_ALG_HS256, 0);
	CTOK[CC_HS][2] = mk_hs("{\"alg\":\"HS256\"}", PX, K32, JWT_ALG_HS256, 0);
	CTOK[CC_HS][3] = mk_hs("{\"alg\":\"HS256\"}", P1, K32, JWT_ALG_HS256, 1);
	CTOK[CC_HS][4] = mk_hs("{\"alg\":\"HS384\"}", P1, K32, JWT_ALG_HS384, 0);
	/* ES256 + iss */
	CTOK[CC_ES_ISS][0] = mk_es("{\"alg\":\"ES256\"}", P1, 0);
	CTOK[CC_ES_ISS][1] = mk_es("{\"alg\":\"ES256\"}", P2, 0);
	CTOK[CC_ES_ISS][2] = mk_es("{\"alg\":\"ES256\"}", PX, 0);
	CTOK[CC_ES_ISS][3] = mk_es("{\"alg\":\"ES256\"}", P1, 1);
	CTOK[CC_ES_ISS][4] = mk_hs("{\"alg\":\"HS256\"}", P1, K32, JWT_ALG_HS256, 0);
	/* callback by kid: h1 valid, e1 valid, h2-signed-with-h1's key is the bad one */
	CTOK[CC_CB_KID][0] = mk_hs("{\"alg\":\"HS256\",\"kid\":\"h1\"}", P1, K32, JWT_ALG_HS256, 0);
	CTOK[CC_CB_KID][1] = mk_es("{\"alg\":\"ES256\",\"kid\":\"e1\"}", P2, 0);
	CTOK[CC_CB_KID][2] = mk_hs("{\"alg\":\"HS256\",\"kid\":\"h2\"}", PX, K32B, JWT_ALG_HS256, 0);
	CTOK[CC_CB_KID][3] = mk_hs("{\"alg\":\"HS256\",\"kid\":\"h2\"}", P1, K32, JWT_ALG_HS256, 0);
	CTOK[CC_CB_KID][4] = mk_hs("{\"alg\":\"HS256\",\"kid\":\"e1\"}", P1, K32, JWT_ALG_HS256, 0);
	/* lenient callback: kid h1 valid, the same token without kid (fresh checker: no key), kid e1 valid, unknown kid, h2 with h1's key */
	CTOK[CC_CB_KID_LENIENT][0] = mk_hs("{\"alg\":\"HS256\",\"kid\":\"h1\"}", P1, K32, JWT_ALG_HS256, 0);
	CTOK[CC_CB_KID_LENIENT][1] = mk_hs("{\"alg\":\"HS256\"}", P1, K32, JWT_ALG_HS256, 0);
	CTOK[CC_CB_KID_LENIENT][2] = mk_es("{\"alg\":\"ES256\",\"kid\":\"e1\"}", PX, 0);
	CTOK[CC_CB_KID_LENIENT][3] = mk_hs("{\"alg\":\"HS256\",\"kid\":\"zz\"}", P1, K32, JWT_ALG_HS256, 0);
	CTOK[CC_CB_KID_LENIENT][4] = mk_es("{\"alg\":\"ES256\"}", P2, 0);
	for (int i = 0; i < 5; i++) {
		CTOK[CC_CB_EDIT][i] = strdup(CTOK[CC_HS][i]);
		{
			/* time claims far outside any window (accepted thanks to the leeways), then ones that are no integers (refused all the same) */
			static const char *lp[5] = { "{\"nbf\":50000000000,\"exp\":5}", "{\"nbf\":1699999990}", "{\"nbf\":\"soon\"}", "{\"exp\":\"never\"}", "{\"n\":1}" };
			CTOK[CC_LEEWAY_MAX][i] = mk_none(lp[i]);
		}
		CTOK[CC_CB_CTX][i] = strdup(CTOK[CC_CB_KID][i]);
	}
	for (int cc = 0; cc < NCC; cc++) {
		CTOK[cc][5] = strdup("abcdef");
		CTOK[cc][6] = strdup("!!!.e30.");
		CTOK[cc][7] = strdup("eyJ0eXAiOiJKV1QifQ.e30.");
		CTOK[cc][8] = mk_none("{\"iss\":\"good\"}");
		CTOK[cc][9] = strdup("");
		CTOK[cc][10] = NULL;
	}
}

#define C13_NOPS (NTOK + 2)
static long c13_steps, c13_accepts;

static void c13_checker_history(int cc, const int *ops, int n, const char *desc)
{
	jwt_checker_t *c = cc_checker(cc);
	time_t clock = T0;
	for (int i = 0; i < n; i++) {
		int op = ops[i];
		if (op == NTOK) {
			jwt_checker_error_clear(c);
			continue;
		}
		if (op == NTOK + 1) {
			clock += 200;
			continue;
		}
		vf_now = clock;
		int r = jwt_checker_verify(c, CTOK[cc][op]);
		jwt_checker_t *f = cc_checker(cc);
		int r0 = jwt_checker_verify(f, CTOK[cc][op]);
		c13_steps++;
		if (r == 0)
			c13_accepts++;
		vf_obs(vf_hash_mix(r, r0));
		if ((r == 0) != (r0 == 0) || r != r0) {
			char key[96];
			snprintf(key, sizeof key, "hidden-state|checker|reused=%d-fresh=%d", r != 0, r0 != 0);
			vf_violation(key, "config %s, history %s: step %d verify(%s) returned %d on the reused checker, %d on a fresh one (clock T0+%ld)", cc_name[cc], desc, i,
				     ctok_name[op], r, r0, (long)(clock - T0));
		}
		if ((r != 0) != (jwt_checker_error(c) != 0))
			vf_obs(31337);
		jwt_checker_free(f);
	}
	vf_now = T0;
	jwt_checker_free(c);
}

/* ---- builder histories ---- */
enum { BO_SETKEY_GOOD, BO_SETKEY_WEAK512, BO_SETKEY_NONE, BO_SETKEY_PUBLIC, BO_SETCB_FAIL, BO_SETCB_MUT, BO_SETCB_NULL, BO_GENERATE, BO_CLEAR, BO_CLOCK,
       BO_CLAIM_SUB, BO_CLAIM_DEL, BO_SETKEY_ES, BO_SETCB_SOMETIMES_KEY, BO_SETCB_CTX, BO_IAT_OFF, NBO };
static const char *bo_name[NBO] = { "setkey(HS256,oct32)", "setkey(HS512,oct32)", "setkey(none,NULL)", "setkey(ES256,public)!", "setcb(failing)", "setcb(mutating)",
				    "setcb(NULL)", "generate", "error_clear", "clock+200", "claim_set(sub)", "claim_del(sub)", "setkey(EdDSA,ed25519)", "setcb(selects key only at even clock steps)",
				    "setcb(selects key through its context, then overwrites config->ctx)", "enable_iat(0)" };
static jwk_set_t *ed_set;

static int fail_cb(jwt_t *jwt, jwt_config_t *cfg) { (void)jwt; (void)cfg; return 1; }
static int mut_cb(jwt_t *jwt, jwt_config_t *cfg)
{
	jwt_value_t v;
	(void)cfg;
	jwt_set_SET_INT(&v, "m", 1); v.replace = 1; jwt_claim_set(jwt, &v);
	jwt_set_SET_STR(&v, "kid", "cb"); v.replace = 1; jwt_header_set(jwt, &v);
	jwt_claim_del(jwt, "sub");
	return 0;
}

/* selects a key and algorithm only at even multiples of 200 s after T0; otherwise leaves the config untouched */
static int sometimes_key_cb(jwt_t *jwt, jwt_config_t *cfg)
{
	(void)jwt;
	if (((time(NULL) - T0) / 200) % 2 == 0) {
		cfg->key = it_h1;
		cfg->alg = JWT_ALG_HS256;
	}
	return 0;
}

/* builder callback: selects the key only while its context is intact, and overwrites config->ctx on the way */
static int bctx_cb(jwt_t *jwt, jwt_config_t *cfg)
{
	(void)jwt;
	if (cfg->ctx == (void *)ring) {
		cfg->key = it_h1;
		cfg->alg = JWT_ALG_HS256;
	}
	cfg->ctx = NULL;
	return 0;
}

typedef struct {
	int key;  /* 0 none, 1 HS256 good, 2 HS512 weak, 3 EdDSA */
	int cb;   /* 0 none, 1 failing, 2 mutating, 3 sometimes selects a key, 4 context-overwriting */
	int noiat;
	int sub;
} bmodel_t;

static void bmodel_apply(jwt_builder_t *b, const bmodel_t *m)
{
	if (m->key == 1) jwt_builder_setkey(b, JWT_ALG_HS256, it_h1);
	else if (m->key == 2) jwt_builder_setkey(b, JWT_ALG_HS512, it_h1);
	else if (m->key == 3) jwt_builder_setkey(b, JWT_ALG_EDDSA, jwks_item_get(ed_set, 0));
	if (m->cb == 1) jwt_builder_setcb(b, fail_cb, NULL);
	else if (m->cb == 2) jwt_builder_setcb(b, mut_cb, NULL);
	else if (m->cb == 3) jwt_builder_setcb(b, sometimes_key_cb, NULL);
	else if (m->cb == 4) jwt_builder_setcb(b, bctx_cb, ring);
	if (m->sub) {
		jwt_value_t v;
		jwt_set_SET_STR(&v, "sub", "s");
		jwt_builder_claim_set(b, &v);
	}
	if (m->noiat)
		jwt_builder_enable_iat(b, 0);
}

static long c13_gens, c13_gen_ok, c13_histories;

static void c13_builder_history(const int *ops, int n, const char *desc)
{
	jwt_builder_t *b = jwt_builder_new();
	bmodel_t m = { 0, 0, 0, 0 };
	time_t clock = T0;
	jwt_value_t v;
	for (int i = 0; i < n; i++) {
		switch (ops[i]) {
		case BO_SETKEY_GOOD: if (!jwt_builder_setkey(b, JWT_ALG_HS256, it_h1)) m.key = 1; break;
		case BO_SETKEY_WEAK512: if (!jwt_builder_setkey(b, JWT_ALG_HS512, it_h1)) m.key = 2; break;
		case BO_SETKEY_NONE: if (!jwt_builder_setkey(b, JWT_ALG_NONE, NULL)) m.key = 0; break;
		case BO_SETKEY_PUBLIC:
			if (!jwt_builder_setkey(b, JWT_ALG_ES256, it_e1))
				vf_violation("builder-accepts-public-key", "setkey(ES256, public key) succeeded (history %s)", desc);
			break;
		case BO_SETKEY_ES: if (!jwt_builder_setkey(b, JWT_ALG_EDDSA, jwks_item_get(ed_set, 0))) m.key = 3; break;
		case BO_SETCB_FAIL: if (!jwt_builder_setcb(b, fail_cb, NULL)) m.cb = 1; break;
		case BO_SETCB_MUT: if (!jwt_builder_setcb(b, mut_cb, NULL)) m.cb = 2; break;
		case BO_SETCB_NULL: if (!jwt_builder_setcb(b, NULL, NULL)) m.cb = 0; break;
		case BO_SETCB_SOMETIMES_KEY: if (!jwt_builder_setcb(b, sometimes_key_cb, NULL)) m.cb = 3; break;
		case BO_SETCB_CTX: if (!jwt_builder_setcb(b, bctx_cb, ring)) m.cb = 4; break;
		case BO_IAT_OFF: jwt_builder_enable_iat(b, 0); m.noiat = 1; break;   /* returns the previous setting */
		case BO_CLEAR: jwt_builder_error_clear(b); break;
		case BO_CLOCK: clock += 200; break;
		case BO_CLAIM_SUB:
			jwt_set_SET_STR(&v, "sub", "s");
			if (jwt_builder_claim_set(b, &v) == JWT_VALUE_ERR_NONE)
				m.sub = 1;
			break;
		case BO_CLAIM_DEL: jwt_builder_claim_del(b, "sub"); m.sub = 0; break;
		case BO_GENERATE: {
			vf_now = clock;
			char *t = jwt_builder_generate(b);
			jwt_builder_t *f = jwt_builder_new();
			bmodel_apply(f, &m);
			char *t0 = jwt_builder_generate(f);
			c13_gens++;
			if (t)
				c13_gen_ok++;
			vf_obs(vf_hash_mix(vf_hash_str(t), vf_hash_str(t0)));
			if ((t == NULL) != (t0 == NULL) || (t && strcmp(t, t0)))
				vf_violation(t && t0 ? "hidden-state|builder|token-differs" : t ? "hidden-state|builder|reused-succeeds-fresh-fails" : "hidden-state|builder|reused-fails-fresh-succeeds",
					     "history %s: step %d generate gave %s on the reused builder, %s on a fresh identically configured one", desc, i, t ? t : "NULL", t0 ? t0 : "NULL");
			free(t);
			free(t0);
			jwt_builder_free(f);
			break;
		}
		}
	}
	vf_now = T0;
	jwt_builder_free(b);
}

static void enumerate_c13(void)
{
	vk_load();
	rc_rng_install();
	c13_setup();
	char *edj = vk_jwk_text(vk_get("ed25519a"), 1, NULL, NULL);
	ed_set = jwks_create(edj);
	free(edj);
	int D = vf_thorough ? 5 : 4;
	/* checker: all histories of exactly depth D (every shorter history is a prefix of one of them) */
	for (int cc = 0; cc < NCC; cc++) {
		long total = 1;
		for (int i = 0; i < D; i++)
			total *= C13_NOPS;
		for (long code = 0; code < total; code++) {
			int ops[8];
			long c = code;
			for (int i = D - 1; i >= 0; i--) {
				ops[i] = c % C13_NOPS;
				c /= C13_NOPS;
			}
			char desc[400];
			size_t o = 0;
			for (int i = 0; i < D; i++)
				o += snprintf(desc + o, sizeof desc - o, "%s%s", i ? "," : "", ops[i] < NTOK ? ctok_name[ops[i]] : ops[i] == NTOK ? "error_clear" : "clock+200");
			if (!vf_case("checker %s: [%s]", cc_name[cc], desc))
				continue;
			c13_checker_history(cc, ops, D, desc);
			c13_histories++;
			vf_nontrivial_case();
		}
	}
	/* builder: all histories of depth DB */
	int DB = vf_thorough ? 6 : 5;
	long total = 1;
	for (int i = 0; i < DB; i++)
		total *= NBO;
	for (long code = 0; code < total; code++) {
		int ops[8], has_gen = 0;
		long c = code;
		for (int i = DB - 1; i >= 0; i--) {
			ops[i] = c % NBO;
			c /= NBO;
			if (ops[i] == BO_GENERATE)
				has_gen = 1;
		}
		if (!has_gen)
			continue;   /* nothing observable */
		char desc[500];
		size_t o = 0;
		for (int i = 0; i < DB; i++)
			o += snprintf(desc + o, sizeof desc - o, "%s%s", i ? "," : "", bo_name[ops[i]]);
		if (!vf_case("builder: [%s]", desc))
			continue;
		c13_builder_history(ops, DB, desc);
		c13_histories++;
		vf_nontrivial_case();
	}
	vf_count("evaluations", c13_steps + c13_gens);
	vf_count("transitions", c13_steps + c13_gens);
	vf_count("states", c13_histories);
	vf_count("verify_steps_compared", c13_steps);
	vf_count("verify_accepts", c13_accepts);
	vf_count("generate_steps_compared", c13_gens);
	vf_count("generate_successes", c13_gen_ok);
	vf_count("=checker_history_depth", D);
	vf_count("=builder_history_depth", DB);
}

/* ================================================================== C14: error-reporting contract */
typedef struct {
	const char *name;
	char *tok;   /* may be NULL */
} ctk_t;

static ctk_t C14T[64];
static int NC14T;
static void c14_add(const char *name, char *tok)
{
	C14T[NC14T].name = name;
	C14T[NC14T].tok = tok;
	NC14T++;
}
static char *rawtok(const char *h, const char *p, const char *sig)
{
	char *r = malloc(strlen(h) + strlen(p) + strlen(sig) + 3);
	sprintf(r, "%s.%s.%s", h, p, sig);
	return r;
}

enum { K14_NOKEY, K14_HS, K14_HS_ATTR, K14_ES, K14_RSA, K14_RSA1024, K14_HS_SHORT, K14_ED, K14_CLAIMS, K14_CB_FAIL, K14_CB_BADCFG, K14_CB_KID, K14_HS_ON_RSA, K14_ES_ON_OCT, NK14 };
static const char *k14_name[NK14] = { "no-key", "HS256+oct32", "none+oct32(alg=HS256)", "ES256+P-256pub", "RS256+rsa2048pub", "RS256+rsa1024pub", "HS256+oct16",
				      "EdDSA+ed25519pub", "HS256+oct32+exp/nbf/iss/sub/aud", "HS256+oct32+failing-callback", "callback-sets-alg-without-key",
				      "callback-selects-key-by-kid", "HS256+rsa2048pub", "ES256+oct32" };
static jwk_set_t *s14[8];
static int badcfg_cb(jwt_t *jwt, jwt_config_t *cfg) { (void)jwt; cfg->key = NULL; cfg->alg = JWT_ALG_HS256; return 0; }

static jwt_checker_t *k14_checker(int k)
{
	jwt_checker_t *c = jwt_checker_new();
	switch (k) {
	case K14_HS: jwt_checker_setkey(c, JWT_ALG_HS256, it_h1); break;
	case K14_HS_ATTR: jwt_checker_setkey(c, JWT_ALG_NONE, it_h1); break;
	case K14_ES: jwt_checker_setkey(c, JWT_ALG_ES256, it_e1); break;
	case K14_RSA: jwt_checker_setkey(c, JWT_ALG_RS256, jwks_item_get(s14[0], 0)); break;
	case K14_RSA1024: jwt_checker_setkey(c, JWT_ALG_RS256, jwks_item_get(s14[1], 0)); break;
	case K14_HS_SHORT: jwt_checker_setkey(c, JWT_ALG_HS256, jwks_item_get(s14[2], 0)); break;
	case K14_ED: jwt_checker_setkey(c, JWT_ALG_EDDSA, jwks_item_get(s14[3], 0)); break;
	case K14_CLAIMS:
		jwt_checker_setkey(c, JWT_ALG_HS256, it_h1);
		jwt_checker_claim_set(c, JWT_CLAIM_ISS, "good");
		jwt_checker_claim_set(c, JWT_CLAIM_SUB, "good");
		jwt_checker_claim_set(c, JWT_CLAIM_AUD, "good");
		break;
	case K14_CB_FAIL: jwt_checker_setkey(c, JWT_ALG_HS256, it_h1); jwt_checker_setcb(c, fail_cb, NULL); break;
	case K14_CB_BADCFG: jwt_checker_setcb(c, badcfg_cb, NULL); break;
	case K14_CB_KID: jwt_checker_setcb(c, kid_cb, ring); break;
	case K14_HS_ON_RSA: jwt_checker_setkey(c, JWT_ALG_HS256, jwks_item_get(s14[0], 0)); break;
	case K14_ES_ON_OCT: jwt_checker_setkey(c, JWT_ALG_ES256, jwks_item_get(s14[4], 0)); break;
	}
	jwt_checker_error_clear(c);
	return c;
}

static void c14_tokens(void)
{
	const char *H_HS = "eyJhbGciOiJIUzI1NiJ9", *P_OK = "e30";
	const char *P1 = "{\"iss\":\"good\",\"sub\":\"good\",\"aud\":\"good\"}";
	c14_add("valid-HS256", mk_hs("{\"alg\":\"HS256\"}", P1, K32, JWT_ALG_HS256, 0));
	c14_add("valid-HS256-kid-h1", mk_hs("{\"alg\":\"HS256\",\"kid\":\"h1\"}", P1, K32, JWT_ALG_HS256, 0));
	c14_add("valid-ES256", mk_es("{\"alg\":\"ES256\"}", P1, 0));
	c14_add("valid-unsigned-none", mk_none(P1));
	c14_add("HS256-bad-mac", mk_hs("{\"alg\":\"HS256\"}", P1, K32, JWT_ALG_HS256, 1));
	c14_add("HS256-other-key", mk_hs("{\"alg\":\"HS256\"}", P1, K32B, JWT_ALG_HS256, 0));
	c14_add("HS384-header", mk_hs("{\"alg\":\"HS384\"}", P1, K32, JWT_ALG_HS384, 0));
	c14_add("ES256-bad-sig", mk_es("{\"alg\":\"ES256\"}", P1, 1));
	c14_add("expired", mk_hs("{\"alg\":\"HS256\"}", "{\"exp\":5,\"iss\":\"good\",\"sub\":\"good\",\"aud\":\"good\"}", K32, JWT_ALG_HS256, 0));
	c14_add("not-yet-valid", mk_hs("{\"alg\":\"HS256\"}", "{\"nbf\":99999999999,\"iss\":\"good\",\"sub\":\"good\",\"aud\":\"good\"}", K32, JWT_ALG_HS256, 0));
	c14_add("exp-wrong-type", mk_hs("{\"alg\":\"HS256\"}", "{\"exp\":\"x\",\"iss\":\"good\",\"sub\":\"good\",\"aud\":\"good\"}", K32, JWT_ALG_HS256, 0));
	c14_add("iss-wrong", mk_hs("{\"alg\":\"HS256\"}", "{\"iss\":\"evil\",\"sub\":\"good\",\"aud\":\"good\"}", K32, JWT_ALG_HS256, 0));
	c14_add("sub-missing", mk_hs("{\"alg\":\"HS256\"}", "{\"iss\":\"good\",\"aud\":\"good\"}", K32, JWT_ALG_HS256, 0));
	c14_add("aud-not-string", mk_hs("{\"alg\":\"HS256\"}", "{\"iss\":\"good\",\"sub\":\"good\",\"aud\":[\"good\"]}", K32, JWT_ALG_HS256, 0));
	c14_add("no-dot", strdup("abcdef"));
	c14_add("one-dot", strdup("eyJhbGciOiJIUzI1NiJ9.e30"));
	c14_add("header-bad-b64", rawtok("!!!!", P_OK, ""));
	c14_add("header-len-1-mod-4", rawtok("eyJhb", P_OK, ""));
	c14_add("header-empty", rawtok("", P_OK, ""));
	c14_add("header-not-json", rawtok("Zm9v", P_OK, ""));
	c14_add("header-json-array", rawtok("WzFd", P_OK, ""));
	c14_add("header-json-scalar", rawtok("NQ", P_OK, ""));
	c14_add("header-without-alg", rawtok("eyJ0eXAiOiJKV1QifQ", P_OK, ""));
	c14_add("header-alg-number", rawtok("eyJhbGciOjF9", P_OK, ""));
	c14_add("header-alg-null", rawtok("eyJhbGciOm51bGx9", P_OK, ""));
	c14_add("header-alg-unknown", rawtok("eyJhbGciOiJYUzk5OSJ9", P_OK, ""));
	c14_add("header-alg-lowercase", rawtok("eyJhbGciOiJoczI1NiJ9", P_OK, "AAAA"));
	c14_add("payload-bad-b64", rawtok(H_HS, "!!!!", "AAAA"));
	c14_add("payload-empty", rawtok(H_HS, "", "AAAA"));
	c14_add("payload-not-json", rawtok(H_HS, "Zm9v", "AAAA"));
	c14_add("payload-scalar", rawtok(H_HS, "NQ", "AAAA"));
	c14_add("signature-bad-b64", rawtok("eyJhbGciOiJFUzI1NiJ9", P_OK, "!!!!"));
	c14_add("signature-len-1-mod-4", rawtok("eyJhbGciOiJSUzI1NiJ9", P_OK, "AAAAA"));
	c14_add("signature-short-ES256", rawtok("eyJhbGciOiJFUzI1NiJ9", P_OK, "AAAA"));
	c14_add("signature-short-RS256", rawtok("eyJhbGciOiJSUzI1NiJ9", P_OK, "AAAA"));
	c14_add("signature-short-EdDSA", rawtok("eyJhbGciOiJFZERTQSJ9", P_OK, "AAAA"));
	c14_add("alg-none-with-signature", rawtok("eyJhbGciOiJub25lIn0", P_OK, "AAAA"));
	c14_add("HS256-empty-signature", rawtok(H_HS, P_OK, ""));
	c14_add("kid-unknown", mk_hs("{\"alg\":\"HS256\",\"kid\":\"zz\"}", P1, K32, JWT_ALG_HS256, 0));
	c14_add("empty-string", strdup(""));
	c14_add("NULL", NULL);
}

static long c14_calls, c14_fail, c14_ok;

/* the contract after one jwt_checker_verify call */
static void c14_judge_checker(jwt_checker_t *c, int r, const char *cfg, const char *what, const char *hist)
{
	int flag = jwt_checker_error(c);
	const char *msg = jwt_checker_error_msg(c);
	c14_calls++;
	if (r) c14_fail++; else c14_ok++;
	vf_obs(vf_hash_mix(r != 0, flag));
	if (r != 0 && !flag)
		vf_violation("checker|nonzero-return-without-error-flag", "config %s, %s: verify(%s) returned %d but jwt_checker_error()=0 (msg '%s')", cfg, hist, what, r, msg);
	else if (r == 0 && flag)
		vf_violation("checker|zero-return-with-error-flag", "config %s, %s: verify(%s) returned 0 but the error flag is set (msg '%s')", cfg, hist, what, msg);
	else if (r != 0 && (!msg || !msg[0]))
		vf_violation("checker|failure-without-message", "config %s, %s: verify(%s) failed with an empty message", cfg, hist, what);
	else if (r == 0 && msg && msg[0])
		vf_violation("checker|success-with-stale-message", "config %s, %s: verify(%s) succeeded but the message is '%s'", cfg, hist, what, msg);
}

/* builder items */
enum { B14_NONE, B14_HS, B14_HS512_WEAK, B14_ES, B14_RSA1024, B14_UNKNOWN_ALG_KEY, B14_INVAL, B14_PUBLIC, B14_CB_FAIL, B14_CB_BADCFG, B14_CB_KEYONLY_NOATTR, B14_HS_ON_RSA, B14_ES_ON_OCT, B14_ED, NB14 };
static const char *b14_name[NB14] = { "no-key", "setkey(HS256,oct32)", "setkey(HS512,oct32)", "setkey(ES256,P-256)", "setkey(RS256,rsa1024)", "setkey(none,key alg=XS999)",
				      "setkey(INVAL,oct32-noattr)", "setkey(ES256,public)", "failing-callback", "callback-sets-alg-without-key", "callback-sets-key-without-alg",
				      "setkey(HS256,rsa2048)", "setkey(ES256,oct32-noattr)", "setkey(EdDSA,ed25519)" };
static int keyonly_cb(jwt_t *jwt, jwt_config_t *cfg) { (void)jwt; cfg->key = cfg->ctx; return 0; }

static void b14_config(jwt_builder_t *b, int item)
{
	/* reset to a neutral configuration first, then apply the item */
	jwt_builder_setkey(b, JWT_ALG_NONE, NULL);
	jwt_builder_setcb(b, NULL, NULL);
	switch (item) {
	case B14_HS: jwt_builder_setkey(b, JWT_ALG_HS256, it_h1); break;
	case B14_HS512_WEAK: jwt_builder_setkey(b, JWT_ALG_HS512, jwks_item_get(s14[4], 0)); break;
	case B14_ES: jwt_builder_setkey(b, JWT_ALG_ES256, it_e1priv); break;
	case B14_RSA1024: jwt_builder_setkey(b, JWT_ALG_RS256, jwks_item_get(s14[5], 0)); break;
	case B14_UNKNOWN_ALG_KEY: jwt_builder_setkey(b, JWT_ALG_NONE, jwks_item_get(s14[6], 0)); break;
	case B14_INVAL: jwt_builder_setkey(b, JWT_ALG_INVAL, jwks_item_get(s14[4], 0)); break;
	case B14_PUBLIC: jwt_builder_setkey(b, JWT_ALG_ES256, it_e1); break;
	case B14_CB_FAIL: jwt_builder_setkey(b, JWT_ALG_HS256, it_h1); jwt_builder_setcb(b, fail_cb, NULL); break;
	case B14_CB_BADCFG: jwt_builder_setcb(b, badcfg_cb, NULL); break;
	case B14_CB_KEYONLY_NOATTR: jwt_builder_setcb(b, keyonly_cb, (void *)jwks_item_get(s14[4], 0)); break;
	case B14_HS_ON_RSA: jwt_builder_setkey(b, JWT_ALG_HS256, jwks_item_get(s14[7], 0)); break;
	case B14_ES_ON_OCT: jwt_builder_setkey(b, JWT_ALG_ES256, jwks_item_get(s14[4], 0)); break;
	case B14_ED: jwt_builder_setkey(b, JWT_ALG_EDDSA, jwks_item_get(ed_set, 0)); break;
	}
}

static void c14_judge_builder(jwt_builder_t *b, char *out, const char *what, const char *hist)
{
	int flag = jwt_builder_error(b);
	const char *msg = jwt_builder_error_msg(b);
	c14_calls++;
	if (!out) c14_fail++; else c14_ok++;
	vf_obs(vf_hash_mix(out != NULL, flag));
	if (!out && !flag)
		vf_violation("builder|NULL-without-error-flag", "%s: generate after %s returned NULL but jwt_builder_error()=0 (msg '%s')", hist, what, msg);
	else if (out && flag)
		vf_violation("builder|token-with-error-flag", "%s: generate after %s returned a token but the error flag is set (msg '%s')", hist, what, msg);
	else if (!out && (!msg || !msg[0]))
		vf_violation("builder|failure-without-message", "%s: generate after %s failed with an empty message", hist, what);
}

static void enumerate_c14(void)
{
	vk_load();
	rc_rng_install();
	c13_setup();
	char *t;
	t = vk_jwk_text(vk_get("rsa2048a"), 0, NULL, NULL); s14[0] = jwks_create(t); free(t);
	t = vk_jwk_text(vk_get("rsa1024"), 0, NULL, NULL); s14[1] = jwks_create(t); free(t);
	t = vk_oct_jwk(K32, 16, NULL, NULL); s14[2] = jwks_create(t); free(t);
	t = vk_jwk_text(vk_get("ed25519a"), 0, NULL, NULL); s14[3] = jwks_create(t); free(t);
	t = vk_oct_jwk(K32, 32, NULL, NULL); s14[4] = jwks_create(t); free(t);
	t = vk_jwk_text(vk_get("rsa1024"), 1, NULL, NULL); s14[5] = jwks_create(t); free(t);
	t = vk_oct_jwk(K32, 32, "XS999", NULL); s14[6] = jwks_create(t); free(t);
	t = vk_jwk_text(vk_get("rsa2048a"), 1, NULL, NULL); s14[7] = jwks_create(t); free(t);
	t = vk_jwk_text(vk_get("ed25519a"), 1, NULL, NULL); ed_set = jwks_create(t); free(t);
	c14_tokens();
	/* (a) checker: every cause fresh, and every ordered pair of causes on one checker, with and without error_clear */
	for (int k = 0; k < NK14; k++)
		for (int i = -1; i < NC14T; i++)
			for (int j = 0; j < NC14T; j++)
				for (int clr = 0; clr < (i < 0 ? 1 : 2); clr++) {
					if (!vf_case("checker %s: %s%s%s then %s", k14_name[k], i < 0 ? "(fresh)" : C14T[i].name, i < 0 ? "" : ",", i < 0 ? "" : clr ? "error_clear" : "no-clear",
						     C14T[j].name))
						continue;
					jwt_checker_t *c = k14_checker(k);
					char hist[200];
					snprintf(hist, sizeof hist, "fresh");
					if (i >= 0) {
						int r1 = jwt_checker_verify(c, C14T[i].tok);
						c14_judge_checker(c, r1, k14_name[k], C14T[i].name, "first call");
						if (clr)
							jwt_checker_error_clear(c);
						snprintf(hist, sizeof hist, "after %s(%s)%s", C14T[i].name, r1 ? "failed" : "ok", clr ? "+error_clear" : "");
					}
					int r = jwt_checker_verify(c, C14T[j].tok);
					c14_judge_checker(c, r, k14_name[k], C14T[j].name, hist);
					jwt_checker_free(c);
					vf_nontrivial_case();
				}
	/* (b) builder: every item fresh, and every ordered pair on one builder */
	for (int i = -1; i < NB14; i++)
		for (int j = 0; j < NB14; j++)
			for (int clr = 0; clr < (i < 0 ? 1 : 2); clr++) {
				if (!vf_case("builder: %s%s%s then %s", i < 0 ? "(fresh)" : b14_name[i], i < 0 ? "" : ",", i < 0 ? "" : clr ? "error_clear" : "no-clear", b14_name[j]))
					continue;
				rc_rng_reseed(vf_case_index());
				jwt_builder_t *b = jwt_builder_new();
				char hist[200] = "fresh";
				if (i >= 0) {
					b14_config(b, i);
					char *o1 = jwt_builder_generate(b);
					c14_judge_builder(b, o1, b14_name[i], "first call");
					snprintf(hist, sizeof hist, "after %s(%s)%s", b14_name[i], o1 ? "ok" : "failed", clr ? "+error_clear" : "");
					free(o1);
					if (clr)
						jwt_builder_error_clear(b);
				}
				b14_config(b, j);
				char *o = jwt_builder_generate(b);
				c14_judge_builder(b, o, b14_name[j], hist);
				free(o);
				jwt_builder_free(b);
				vf_nontrivial_case();
			}
	/* (c) setter/getter return code == value.error: the C15 machinery at depth 2 reports it under its own key */
	build_mops();
	MSCAP = 1 << 16;
	MHCAP = 1 << 17;
	MS = calloc(MSCAP, sizeof *MS);
	mhash = malloc(sizeof(int) * MHCAP);
	for (int rcv = 0; rcv < NRCV; rcv++)
		c15_for_receiver(rcv, 2);
	/* (d) names and string values that are not UTF-8 (jansson refuses them): the map model says nothing about them, the
	 * contract does -- whatever code comes back is the code left in value.error.  Each probe runs on an empty map and after
	 * set_int(a,0) (probe names collide with nothing; the bad value targets the existing name), on every receiver. */
	{
		static const char BADNAME[] = "n\xff\xfe", BADVAL[] = "ok\xc3(", BADJSON[] = "{\"\xff\":1}";
		int base = NMOPS;
		static const jwt_value_type_t ty[] = { JWT_VALUE_INT, JWT_VALUE_STR, JWT_VALUE_BOOL, JWT_VALUE_JSON };
		static const char *tn[] = { "int", "str", "bool", "json" };
		for (int r = 0; r < 2; r++) {
			for (int t = 0; t < 4; t++) {
				mop_t *m = &MOPS[NMOPS++];
				*m = (mop_t){ 0, ty[t], BADNAME, 7, t == 3 ? "{\"x\":1}" : "v", 1, r, "" };
				snprintf(m->label, sizeof m->label, "set_%s(<name not UTF-8>%s)", tn[t], r ? ",replace" : "");
			}
			mop_t *m = &MOPS[NMOPS++];
			*m = (mop_t){ 0, JWT_VALUE_STR, "a", 0, BADVAL, 0, r, "" };
			snprintf(m->label, sizeof m->label, "set_str(a,<value not UTF-8>%s)", r ? ",replace" : "");
			m = &MOPS[NMOPS++];
			*m = (mop_t){ 0, JWT_VALUE_STR, "b", 0, BADVAL, 0, r, "" };
			snprintf(m->label, sizeof m->label, "set_str(b,<value not UTF-8>%s)", r ? ",replace" : "");
			m = &MOPS[NMOPS++];
			*m = (mop_t){ 0, JWT_VALUE_JSON, "a", 0, BADJSON, 0, r, "" };
			snprintf(m->label, sizeof m->label, "set_json(a,<text not UTF-8>%s)", r ? ",replace" : "");
			m = &MOPS[NMOPS++];
			*m = (mop_t){ 0, JWT_VALUE_JSON, NULL, 0, BADJSON, 0, r, "" };
			snprintf(m->label, sizeof m->label, "set_json(NULL,<text not UTF-8>%s)", r ? ",replace" : "");
		}
		for (int t = 0; t < 4; t++) {
			mop_t *m = &MOPS[NMOPS++];
			*m = (mop_t){ 1, ty[t], BADNAME, 0, NULL, 0, 0, "" };
			snprintf(m->label, sizeof m->label, "get_%s(<name not UTF-8>)", tn[t]);
		}
		int seta = -1;
		for (int i = 0; i < base; i++)
			if (!strcmp(MOPS[i].label, "set_int(a,0)"))
				seta = i;
		for (int rcv = 0; rcv < NRCV; rcv++)
			for (int probe = base; probe < NMOPS; probe++)
				for (int pre = 0; pre < 2; pre++) {
					if (!vf_case("%s: %s%s: returned code equals value.error", rcv_name[rcv], pre ? "set_int(a,0) then " : "", MOPS[probe].label))
						continue;
					for (int st = 0; st < 5; st++) {
						int ops[2] = { seta, probe };
						mres_t res[2];
						mrun_t run = { rcv, pre ? ops : ops + 1, pre ? 2 : 1, res, NULL, NULL, 0 };
						stale_error = st;
						impl_run(&run);
						stale_error = 0;
						free(run.final_dump);
						if (!run.ran) {
							vf_violation("harness|callback-not-run", "receiver %s: callback did not run", rcv_name[rcv]);
							continue;
						}
						const mres_t *pr = &res[pre ? 1 : 0];
						c14_calls++;
						vf_obs(vf_hash_mix(pr->rc, pr->verr));
						if (pr->rc != pr->verr)
							vf_violation("map|return-differs-from-value.error", "%s: %s returned %d but value.error=%d (value.error held %d before the call)",
								     rcv_name[rcv], MOPS[probe].label, pr->rc, pr->verr, st);
						if (pr->rc)
							c14_fail++;
						else
							c14_ok++;
					}
					vf_nontrivial_case();
				}
		NMOPS = base;
	}
	vf_count("evaluations", c14_calls + c15_checked_calls);
	vf_count("calls_failed", c14_fail);
	vf_count("calls_succeeded", c14_ok);
	vf_count("=checker_causes", NC14T);
	vf_count("=checker_configs", NK14);
	vf_count("=builder_causes", NB14);
}

static void enumerate(void)
{
	vf_alloc_install();
	vf_now = T0;
	lj_select_provider(vf_param);
	if (!strcmp(vf_prop, "C15"))
		enumerate_c15();
	else if (!strcmp(vf_prop, "C13"))
		enumerate_c13();
	else if (!strcmp(vf_prop, "C14"))
		enumerate_c14();
	else {
		fprintf(stderr, "seq: unknown --prop %s\n", vf_prop);
		exit(2);
	}
}

int main(int argc, char **argv)
{
	return vf_main(argc, argv, enumerate);
}
