/* jwk -- JWK / JWKS import and keyring behaviour
 *   C16: a jwk_set is an ordered list under every operation history (BFS, ref_list)
 *   C07: arbitrary JWK/JWKS input (non-JSON, JSON shapes, type-confusion matrix)
 *   C08: import fidelity (independent reading of the JWK vs the imported key)      */
#define OPENSSL_SUPPRESS_DEPRECATED 1
#include "vf.h"
#include "keys.h"
#include "tok.h"
#include <openssl/pem.h>
#include <openssl/bn.h>
#include <openssl/core_names.h>
#include <openssl/ec.h>
#include <openssl/err.h>
#include <unistd.h>

/* ================================================================== shared helpers */

/* run fn once; if the number of live blocks changed, run it again: a real per-call leak repeats,
 * a lazily filled cache inside libcrypto does not */
static int leak_guard(void (*fn)(void *), void *arg)
{
	long a = vk_live();
	fn(arg);
	long b = vk_live();
	if (b == a)
		return 0;
	fn(arg);
	long c = vk_live();
	if (c == b)
		return 0;
	fn(arg);
	long d = vk_live();
	return d != c ? (int)(d - c) : 0;
}

/* ================================================================== C16 */
typedef struct {
	char kid[8];   /* "" = none */
	int kty;
	int err;
} mitem_t;

#define MAXLIST 9
typedef struct {
	int n;
	mitem_t it[MAXLIST + 4];
	int seterr;
} mlist_t;

enum { LO_A, LO_B, LO_BAD, LO_SET, LO_NONJSON, LO_EMPTYKEYS, LO_FREE0, LO_FREEMID, LO_FREELAST, LO_FREEN, LO_FREEMAX, LO_FREEBAD, LO_FREEALL, LO_CLEAR, LO_FREEALIAS, LO_BADALG, NLO };
static const char *lo_name[NLO] = { "load(A oct kid=k1)", "load(B EC kid=k1)", "load(bad oct kid=kb)", "load(set[k2,bad ZZ,RSA k1])", "load(non-JSON)", "load({keys:[]})",
				    "free(0)", "free(mid)", "free(last)", "free(n)", "free(SIZE_MAX)", "free_bad", "free_all", "error_clear", "free(2^32)", "load(set[oct with numeric alg, EC with boolean alg])" };
static char *DOC_BADALG;   /* items that are refused late: they already own their key material (oct bytes, EVP_PKEY and PEM) */
static char *DOC_A, *DOC_B, *DOC_SET;
static char DOC_BAD[400];   /* errored item that still carries a kid */
/* The kids "k2", "kb" and "kz" of the model stand for identifiers of 257 characters that share their first 256 (a key server's URL-like
 * ids): finding one of them must not stop at a length, a prefix or a hash of the first so-many characters.  "k1" stays short. */
static char KLONG[3][264];
static const char *kx(const char *alias)
{
	if (!KLONG[0][0])
		for (int i = 0; i < 3; i++) {
			memset(KLONG[i], 'k', 256);
			KLONG[i][256] = "2bz"[i];
			KLONG[i][257] = 0;
		}
	return !strcmp(alias, "k2") ? KLONG[0] : !strcmp(alias, "kb") ? KLONG[1] : !strcmp(alias, "kz") ? KLONG[2] : alias;
}
static const char DOC_NONJSON[] = "{\"keys\":[";
static const char DOC_EMPTYKEYS[] = "{\"keys\":[]}";

static void c16_docs(void)
{
	unsigned char k[32];
	vk_oct_bytes(3, k, 32);
	DOC_A = vk_oct_jwk(k, 32, "HS256", "k1");
	DOC_B = vk_jwk_text(vk_get("p256a"), 0, "ES256", "k1");
	char *o = vk_oct_jwk(k, 32, NULL, kx("k2")), *r = vk_jwk_text(vk_get("rsa2048a"), 0, "RS256", "k1");
	DOC_SET = malloc(strlen(o) + strlen(r) + 600);
	sprintf(DOC_SET, "{\"keys\":[%s,{\"kty\":\"ZZ\",\"kid\":\"%s\"},%s]}", o, kx("kz"), r);
	snprintf(DOC_BAD, sizeof DOC_BAD, "{\"kty\":\"oct\",\"kid\":\"%s\"}", kx("kb"));
	{
		json_t *jo = json_loads(o, 0, NULL), *je = json_deep_copy(vk_get("p256b")->priv_jwk);
		json_object_set_new(jo, "alg", json_integer(7));
		json_object_set_new(je, "alg", json_true());
		json_object_set_new(je, "kid", json_string("ke"));
		char *a = tok_jdump(jo, JSON_COMPACT), *b = tok_jdump(je, JSON_COMPACT);
		DOC_BADALG = malloc(strlen(a) + strlen(b) + 32);
		sprintf(DOC_BADALG, "{\"keys\":[%s,%s]}", a, b);
		free(a);
		free(b);
		json_decref(jo);
		json_decref(je);
	}
	free(o);
	free(r);
}

static void mlist_push(mlist_t *m, const char *kid, int kty, int err)
{
	mitem_t *it = &m->it[m->n++];
	snprintf(it->kid, sizeof it->kid, "%s", kid);
	it->kty = kty;
	it->err = err;
}
static void mlist_del(mlist_t *m, int i)
{
	memmove(&m->it[i], &m->it[i + 1], sizeof(mitem_t) * (m->n - i - 1));
	m->n--;
}

/* model step; returns expected return value (or -1 when the call returns nothing comparable) */
static long model_list_step(mlist_t *m, int op)
{
	int i, cnt;
	switch (op) {
	case LO_A: mlist_push(m, "k1", JWK_KEY_TYPE_OCT, 0); return -1;
	case LO_B: mlist_push(m, "k1", JWK_KEY_TYPE_EC, 0); return -1;
	case LO_BAD: mlist_push(m, "kb", JWK_KEY_TYPE_OCT, 1); return -1;
	case LO_SET:
		mlist_push(m, "k2", JWK_KEY_TYPE_OCT, 0);
		mlist_push(m, "", JWK_KEY_TYPE_NONE, 1);   /* unknown kty: values (kid) are not read */
		mlist_push(m, "k1", JWK_KEY_TYPE_RSA, 0);
		return -1;
	case LO_NONJSON: m->seterr = 1; return -1;
	case LO_BADALG:
		/* "Invalid alg type" is found after the key itself was built and before kid is read */
		mlist_push(m, "", JWK_KEY_TYPE_OCT, 1);
		mlist_push(m, "", JWK_KEY_TYPE_EC, 1);
		return -1;
	case LO_EMPTYKEYS: return -1;
	case LO_FREE0: i = 0; goto del;
	case LO_FREEMID: i = m->n / 2; goto del;
	case LO_FREELAST: i = m->n - 1; goto del;
	case LO_FREEN: return 0;
	case LO_FREEMAX: return 0;
	case LO_FREEALIAS: return 0;   /* an index whose low 32 bits name item 0 */
	case LO_FREEBAD:
		cnt = 0;
		for (i = 0; i < m->n;)
			if (m->it[i].err) {
				mlist_del(m, i);
				cnt++;
			} else
				i++;
		return cnt;
	case LO_FREEALL:
		cnt = m->n;
		m->n = 0;
		return cnt;
	case LO_CLEAR: m->seterr = 0; return -1;
	}
	return -1;
del:
	if (i < 0 || i >= m->n)
		return 0;
	mlist_del(m, i);
	return 1;
}

static long impl_list_step(jwk_set_t *s, int op)
{
	size_t n = jwks_item_count(s);
	switch (op) {
	case LO_A: jwks_load(s, DOC_A); return -1;
	case LO_B: jwks_load(s, DOC_B); return -1;
	case LO_BAD: jwks_load(s, DOC_BAD); return -1;
	case LO_SET: jwks_load(s, DOC_SET); return -1;
	case LO_NONJSON: jwks_load(s, DOC_NONJSON); return -1;
	case LO_EMPTYKEYS: jwks_load(s, DOC_EMPTYKEYS); return -1;
	case LO_BADALG: jwks_load(s, DOC_BADALG); return -1;
	case LO_FREE0: return jwks_item_free(s, 0);
	case LO_FREEMID: return jwks_item_free(s, n / 2);
	case LO_FREELAST: return jwks_item_free(s, n ? n - 1 : (size_t)-1);
	case LO_FREEN: return jwks_item_free(s, n);
	case LO_FREEMAX: return jwks_item_free(s, (size_t)-1);
	case LO_FREEALIAS: return jwks_item_free(s, (size_t)1 << 32);
	case LO_FREEBAD: return jwks_item_free_bad(s);
	case LO_FREEALL: return jwks_item_free_all(s);
	case LO_CLEAR: jwks_error_clear(s); return -1;
	}
	return -1;
}

static char *mlist_canon(const mlist_t *m)
{
	static char b[512];
	size_t o = snprintf(b, sizeof b, "%d|", m->seterr);
	for (int i = 0; i < m->n; i++)
		o += snprintf(b + o, sizeof b - o, "%s/%d/%d,", m->it[i].kid, m->it[i].kty, m->it[i].err);
	return b;
}

static const char *lhist_str(const int *ops, int n)
{
	static char b[700];
	size_t o = 0;
	b[0] = 0;
	for (int i = 0; i < n && o < sizeof b - 60; i++)
		o += snprintf(b + o, sizeof b - o, "%s%s", i ? "; " : "", lo_name[ops[i]]);
	return b;
}

/* compare every observer with the model */
static int observe_list(jwk_set_t *s, const mlist_t *m, const int *ops, int nops, int step)
{
	int bad = 0;
#define OBSV(key, ...) do { vf_violation(key, __VA_ARGS__); bad = 1; } while (0)
	size_t n = jwks_item_count(s);
	if ((int)n != m->n)
		OBSV("list|count-differs", "after step %d of [%s]: count=%zu, model %d", step, lhist_str(ops, nops), n, m->n);
	int errs = 0;
	/* indexes are read from the far end down to 0, then upwards again, and the last read of all is the last item: an
	 * implementation that remembers where its previous walk ended is thereby left "high" for the next operation and is
	 * first asked for a high index after it (a scan that always restarts at 0 would reset any such memory) */
	for (int pass = 0; pass < 2 * (m->n + 2) + 1; pass++) {
		int i = pass < m->n + 2 ? m->n + 1 - pass : pass < 2 * (m->n + 2) ? pass - (m->n + 2) : m->n - 1;
		if (i < 0)
			continue;
		const jwk_item_t *it = jwks_item_get(s, i);
		if (i >= m->n) {
			if (it)
				OBSV("list|get-beyond-end", "get(%d) returned an item beyond the end (n=%d) after [%s]", i, m->n, lhist_str(ops, nops));
			continue;
		}
		if (!it) {
			OBSV("list|get-missing", "get(%d) returned NULL (n=%d) after [%s]", i, m->n, lhist_str(ops, nops));
			continue;
		}
		const char *kid = jwks_item_kid(it);
		if (strcmp(kid ? kid : "", kx(m->it[i].kid)) || (int)jwks_item_kty(it) != m->it[i].kty || !!jwks_item_error(it) != m->it[i].err)
			OBSV("list|order-or-identity-differs", "item %d is kid=%s kty=%d err=%d, model kid=%s kty=%d err=%d after step %d of [%s]", i, kid ? kid : "", jwks_item_kty(it),
			     jwks_item_error(it), m->it[i].kid, m->it[i].kty, m->it[i].err, step, lhist_str(ops, nops));
		if (jwks_item_error(it) && pass < m->n + 2) {
			errs++;
			if (!jwks_item_error_msg(it)[0])
				OBSV("list|bad-item-without-message", "item %d has error but an empty message", i);
		}
	}
	/* indexes far beyond the end, among them those whose low 32 bits (or sign-truncated value) name a live position */
	for (int i = 0; i <= m->n; i++) {
		static const size_t off[] = { (size_t)1 << 32, (size_t)1 << 31, (size_t)3 << 32, (size_t)1 << 63, ((size_t)1 << 63) + ((size_t)1 << 32), (size_t)0 - ((size_t)1 << 32) };
		for (unsigned k = 0; k < sizeof off / sizeof *off; k++)
			if (off[k] + (size_t)i >= (size_t)m->n && jwks_item_get(s, off[k] + (size_t)i))
				OBSV("list|get-beyond-end", "get(%#zx) returned an item (n=%d) after [%s]", off[k] + (size_t)i, m->n, lhist_str(ops, nops));
	}
	/* the kids in use (long ones in their long form), and strangers: shorter, longer, the shared prefix alone and with another last character,
	 * the short aliases themselves */
	static char absent[4][264];
	if (!absent[0][0]) {
		memset(absent[0], 'k', 256);                            /* the common prefix, nothing after it */
		memset(absent[1], 'k', 255);                            /* one short of it */
		memset(absent[2], 'k', 256); absent[2][256] = '9';     /* same length as the real ones, another last character */
		memset(absent[3], 'k', 256); absent[3][256] = '2'; absent[3][257] = '2';   /* a real one and one more character */
	}
	const char *kids[] = { "k1", kx("k2"), kx("kb"), kx("kz"), "k", "k11", "zz", "", "k2", "kb", absent[0], absent[1], absent[2], absent[3] };
	for (unsigned k = 0; k < sizeof kids / sizeof *kids; k++) {
		int want = -1;
		for (int i = 0; i < m->n; i++)
			if (m->it[i].kid[0] && !strcmp(kx(m->it[i].kid), kids[k])) {
				want = i;
				break;
			}
		jwk_item_t *f = jwks_find_bykid(s, kids[k]);
		const jwk_item_t *w = want >= 0 ? jwks_item_get(s, want) : NULL;
		if (f != w)
			OBSV("list|find_bykid-differs", "find_bykid(%.20s%s, %zu characters) returned %s, model says index %d after [%s]", kids[k], strlen(kids[k]) > 20 ? "..." : "", strlen(kids[k]),
			     f ? "another item" : "NULL", want, lhist_str(ops, nops));
	}
	int any = jwks_error_any(s);
	if (any != m->seterr + errs)
		OBSV("list|error_any-differs", "error_any=%d, model %d+%d after [%s]", any, m->seterr, errs, lhist_str(ops, nops));
	if (!!jwks_error(s) != m->seterr)
		OBSV("list|set-error-differs", "jwks_error=%d, model %d after step %d of [%s]", jwks_error(s), m->seterr, step, lhist_str(ops, nops));
	if (jwks_error(s) && !jwks_error_msg(s)[0])
		OBSV("list|set-error-without-message", "set error without message");
	return bad;
}

struct c16run {
	const int *ops;
	int n;
	int judge;
};

static void c16_run(void *arg)
{
	struct c16run *r = arg;
	jwk_set_t *s = jwks_create(NULL);
	mlist_t m = { 0 };
	for (int i = 0; i < r->n; i++) {
		long want = model_list_step(&m, r->ops[i]);
		long got = impl_list_step(s, r->ops[i]);
		if (!r->judge)
			continue;
		if (want >= 0 && got != want) {
			char key[64];
			snprintf(key, sizeof key, "list|%s-returns-differs", r->ops[i] == LO_FREEBAD ? "free_bad" : r->ops[i] == LO_FREEALL ? "free_all" : "free");
			vf_violation(key, "step %d %s returned %ld, model %ld in [%s]", i, lo_name[r->ops[i]], got, want, lhist_str(r->ops, r->n));
		}
		observe_list(s, &m, r->ops, r->n, i);
	}
	if (r->judge)
		vf_obs(vf_hash_str(mlist_canon(&m)));
	jwks_free(s);
}

typedef struct {
	char *canon;
	int parent, op, depth;
	mlist_t m;
} lstate_t;

static void enumerate_c16(void)
{
	c16_docs();
	int maxdepth = vf_thorough ? 9 : 5;
	int cap = 1 << 21, hcap = 1 << 22;
	lstate_t *LS = calloc(cap, sizeof *LS);
	int *hash = malloc(sizeof(int) * hcap), nls = 0;
	for (int i = 0; i < hcap; i++)
		hash[i] = -1;
	mlist_t init = { 0 };
	LS[0] = (lstate_t){ strdup(mlist_canon(&init)), -1, -1, 0, init };
	hash[vf_hash_str(LS[0].canon) & (hcap - 1)] = 0;
	nls = 1;
	long transitions = 0;
	int cur, deepest = 0;
	for (cur = 0; cur < nls; cur++) {
		if (LS[cur].depth >= maxdepth)
			break;
		int hops[16], hn = 0, tmp[16], id = cur;
		while (LS[id].parent >= 0) {
			tmp[hn++] = LS[id].op;
			id = LS[id].parent;
		}
		for (int i = 0; i < hn; i++)
			hops[i] = tmp[hn - 1 - i];
		for (int op = 0; op < NLO; op++) {
			mlist_t m = LS[cur].m;
			/* keep the list bounded: loads that would exceed the cap are not part of the alphabet in that state */
			int grow = op == LO_A || op == LO_B || op == LO_BAD ? 1 : op == LO_SET ? 3 : 0;
			if (m.n + grow > MAXLIST)
				continue;
			model_list_step(&m, op);
			char canon[512];
			snprintf(canon, sizeof canon, "%s", mlist_canon(&m));
			uint64_t h = vf_hash_str(canon);
			int i = h & (hcap - 1), found = -1;
			while (hash[i] >= 0) {
				if (!strcmp(LS[hash[i]].canon, canon)) {
					found = hash[i];
					break;
				}
				i = (i + 1) & (hcap - 1);
			}
			if (found < 0) {
				if (nls == cap) {
					fprintf(stderr, "jwk: state table full\n");
					exit(2);
				}
				LS[nls] = (lstate_t){ strdup(canon), cur, op, LS[cur].depth + 1, m };
				hash[i] = nls++;
				if (LS[cur].depth + 1 > deepest)
					deepest = LS[cur].depth + 1;
			}
			transitions++;
			if (!vf_case("keyring: [%s] then %s", lhist_str(hops, hn), lo_name[op]))
				continue;
			int ops[16];
			memcpy(ops, hops, sizeof(int) * hn);
			ops[hn] = op;
			struct c16run r = { ops, hn + 1, 1 };
			long a = vk_live();
			c16_run(&r);
			long b = vk_live();
			if (b != a) {
				/* repeat without judging: a real leak repeats, a cache fill inside libcrypto does not */
				r.judge = 0;
				c16_run(&r);
				long c = vk_live();
				if (c != b) {
					c16_run(&r);
					long d = vk_live();
					if (d != c)
						vf_violation("list|leak", "history [%s] leaks %ld block(s) per run", lhist_str(ops, hn + 1), d - c);
				}
			}
			if (strcmp(canon, LS[cur].canon))
				vf_nontrivial_case();
		}
	}
	vf_count("=states", nls);
	vf_count("=transitions", transitions);
	vf_count("=max_history_length", deepest);
	vf_count("=frontier_closed", cur == nls);
}

/* ================================================================== C07 */
typedef struct {
	int set_null;
	int set_err;
	int set_msg;
	int n;
	struct {
		int kty, err, has_msg, has_material;
		char kid[40];
	} it[24];
} dsum_t;

static jwk_set_t *oct_set;        /* for use attempts */
static char *use_tokens[5];

/* exercise an imported key: memory safety is the only demand here */
static void try_use(const jwk_item_t *it)
{
	static const jwt_alg_t by_kty[] = { JWT_ALG_NONE, JWT_ALG_ES256, JWT_ALG_RS256, JWT_ALG_EDDSA, JWT_ALG_HS256 };
	jwt_alg_t alg = by_kty[jwks_item_kty(it)];
	if (jwks_item_kty(it) == JWK_KEY_TYPE_EC)
		alg = jwks_item_key_bits(it) == 384 ? JWT_ALG_ES384 : jwks_item_key_bits(it) == 521 ? JWT_ALG_ES512 : JWT_ALG_ES256;
	if (jwks_item_alg(it) != JWT_ALG_NONE && jwks_item_alg(it) < JWT_ALG_INVAL)
		alg = jwks_item_alg(it);
	if (alg == JWT_ALG_NONE)
		return;
	jwt_builder_t *b = jwt_builder_new();
	/* Signing with a deliberately inconsistent private key is attempted under OpenSSL only: nettle/GMP abort or
	 * corrupt memory inside gnutls_privkey_sign_data() for RSA keys whose CRT members do not belong together,
	 * which is neither libjwt code nor something C07 speaks about (the import itself is what C07 judges). */
	if (vf_param == 0 && !jwt_builder_setkey(b, jwks_item_alg(it) != JWT_ALG_NONE ? JWT_ALG_NONE : alg, it)) {
		char *t = jwt_builder_generate(b);
		if (t) {
			jwt_checker_t *c = jwt_checker_new();
			if (!jwt_checker_setkey(c, jwks_item_alg(it) != JWT_ALG_NONE ? JWT_ALG_NONE : alg, it))
				jwt_checker_verify(c, t);
			jwt_checker_free(c);
		}
		vf_lfree(t);
	}
	jwt_builder_free(b);
	jwt_checker_t *c = jwt_checker_new();
	if (!jwt_checker_setkey(c, jwks_item_alg(it) != JWT_ALG_NONE ? JWT_ALG_NONE : alg, it))
		jwt_checker_verify(c, "eyJhbGciOiJFUzI1NiJ9.e30.QUJDREVGR0hJSktMTU5PUFFSU1RVVldYWVphYmNkZWZnaGlqa2xtbm9wcXJzdHV2d3h5ejAxMjM0NTY3ODktXw");
	jwt_checker_free(c);
}

static void summarize(jwk_set_t *s, size_t skip, dsum_t *d, int use)
{
	memset(d, 0, sizeof *d);
	if (!s) {
		d->set_null = 1;
		return;
	}
	d->set_err = jwks_error(s) != 0;
	d->set_msg = jwks_error_msg(s)[0] != 0;
	size_t n = jwks_item_count(s);
	for (size_t i = skip; i < n && d->n < 24; i++) {
		const jwk_item_t *it = jwks_item_get(s, i);
		int k = d->n++;
		d->it[k].kty = jwks_item_kty(it);
		d->it[k].err = jwks_item_error(it) != 0;
		d->it[k].has_msg = jwks_item_error_msg(it)[0] != 0;
		const char *kid = jwks_item_kid(it);
		snprintf(d->it[k].kid, sizeof d->it[k].kid, "%s", kid ? kid : "");
		const unsigned char *ob;
		size_t ol;
		d->it[k].has_material = jwks_item_kty(it) == JWK_KEY_TYPE_OCT ? !jwks_item_key_oct(it, &ob, &ol) : jwks_item_pem(it) != NULL;
		if (use && !d->it[k].err)
			try_use(it);
	}
	if (n - skip > 24)
		d->n = (int)(n - skip);
}

static int dsum_same(const dsum_t *a, const dsum_t *b)
{
	if (a->set_null != b->set_null || a->set_err != b->set_err || a->n != b->n)
		return 0;
	for (int i = 0; i < a->n && i < 24; i++)
		if (a->it[i].kty != b->it[i].kty || a->it[i].err != b->it[i].err || strcmp(a->it[i].kid, b->it[i].kid))
			return 0;
	return 1;
}

enum { EP_LOAD, EP_LOAD_STRN, EP_CREATE, EP_CREATE_STRN, EP_FILE, EP_FP, EP_APPEND, EP_AFTER_REFUSED, EP_FP_MID, NEP };
static const char *ep_name[NEP] = { "jwks_load", "jwks_load_strn", "jwks_create", "jwks_create_strn", "jwks_load_fromfile", "jwks_load_fromfp", "jwks_load(existing set)",
				    "jwks_load(set that refused a text that is not JSON just before)",
				    "jwks_load_fromfp(stream positioned after a line the caller has read)" };

/* load doc (len bytes; NUL-terminated too) through one entry point; returns the set, *skip = items that were there before */
static jwk_set_t *load_via(int ep, const char *doc, size_t len, size_t *skip)
{
	*skip = 0;
	int has_nul = strlen(doc) != len;
	switch (ep) {
	case EP_LOAD: return has_nul ? NULL : jwks_load(NULL, doc);
	case EP_LOAD_STRN: return jwks_load_strn(NULL, doc, len);
	case EP_CREATE: return has_nul ? NULL : jwks_create(doc);
	case EP_CREATE_STRN: return jwks_create_strn(doc, len);
	case EP_FILE: {
		char path[64];
		snprintf(path, sizeof path, "jwk-in-%d.json", (int)getpid());
		FILE *f = fopen(path, "wb");
		if (!f)
			return NULL;
		fwrite(doc, 1, len, f);
		fclose(f);
		jwk_set_t *s = jwks_load_fromfile(NULL, path);
		unlink(path);
		return s;
	}
	case EP_FP: {
		if (len == 0)
			return (jwk_set_t *)-1;   /* fmemopen refuses an empty buffer: not applicable */
		FILE *f = fmemopen((void *)doc, len, "rb");
		jwk_set_t *s = jwks_load_fromfp(NULL, f);
		fclose(f);
		return s;
	}
	case EP_APPEND: {
		if (has_nul)
			return NULL;
		jwk_set_t *s = jwks_create(DOC_A);
		*skip = 1;
		return jwks_load(s, doc);
	}
	case EP_FP_MID: {
		/* "The FILE pointer must be set to the starting position of the JWK data": the data need not start the file */
		static const char head[] = "# key material follows\n";
		char *buf = malloc(len + sizeof head), line[64];
		memcpy(buf, head, sizeof head - 1);
		memcpy(buf + sizeof head - 1, doc, len);
		FILE *f = fmemopen(buf, len + sizeof head - 1, "rb");
		jwk_set_t *s = NULL;
		if (f && fgets(line, sizeof line, f))
			s = len ? jwks_load_fromfp(NULL, f) : (jwk_set_t *)-1;
		if (f)
			fclose(f);
		free(buf);
		return s;
	}
	case EP_AFTER_REFUSED: {
		/* the set carries the error of the refused load (nobody cleared it): what the next document adds is the same */
		if (has_nul)
			return NULL;
		jwk_set_t *s = jwks_create(DOC_NONJSON);
		return jwks_load(s, doc);
	}
	}
	return NULL;
}

static long c07_loads, c07_items_ok, c07_items_err, c07_nonjson;

static int c14_projection;   /* --prop C14: only the "flagged and explained" clauses are judged */
#define C07V(key, ...) do { if (!c14_projection || !strcmp(key, "jwk|bad-item-without-message") || !strcmp(key, "jwk|non-json-without-set-error")) vf_violation(key, __VA_ARGS__); } while (0)
/* judge one document through the given entry points */
static void c07_doc(const char *doc, size_t len, unsigned epmask, int use)
{
	/* reference: is it JSON at all (same decoder flags), and how many items are due */
	json_error_t jerr;
	json_t *j = json_loadb(doc, len, JSON_DECODE_ANY, &jerr);
	int want_items = -1;   /* -1 = no demand */
	if (j) {
		json_t *keys = json_is_object(j) ? json_object_get(j, "keys") : NULL;
		if (!keys)
			want_items = 1;
		else if (json_is_array(keys))
			want_items = (int)json_array_size(keys);
	} else
		c07_nonjson++;
	dsum_t first;
	int have_first = 0;
	for (int ep = 0; ep < NEP; ep++) {
		if (!(epmask & (1u << ep)))
			continue;
		/* stream readers stop at the end of the first JSON value / at a NUL differently from the counted
		 * string readers; such inputs are judged per entry point only */
		size_t skip;
		jwk_set_t *s = load_via(ep, doc, len, &skip);
		if (s == (jwk_set_t *)-1)
			continue;
		if (!s && strlen(doc) != len && (ep == EP_LOAD || ep == EP_CREATE || ep == EP_APPEND || ep == EP_AFTER_REFUSED))
			continue;
		c07_loads++;
		dsum_t d;
		summarize(s, skip, &d, use);
		if (ep == EP_AFTER_REFUSED && j && d.set_err)
			d.set_err = 0;   /* the earlier refusal's flag, not this document's */
		vf_obs(vf_hash_mix(d.set_err, d.n));
		if (d.n > 0)
			vf_nontrivial(vf_hash(doc, len));
		int streaming = ep == EP_FILE || ep == EP_FP || ep == EP_FP_MID;
		if (d.set_null)
			C07V("jwk|no-set-returned", "%s returned NULL for %zu bytes: %s", ep_name[ep], len, vf_escn(doc, len > 200 ? 200 : len));
		else {
			int is_json = j != NULL;
			if (streaming && !is_json) {
				/* json_loadf/json_load_file accept a valid value followed by garbage only with DISABLE_EOF_CHECK: same verdict expected */
			}
			if (!is_json) {
				if (!d.set_err || !d.set_msg)
					C07V("jwk|non-json-without-set-error", "%s: input is not JSON (%s) but the set reports no error: %s", ep_name[ep], jerr.text,
						     vf_escn(doc, len > 200 ? 200 : len));
				if (d.n != 0)
					C07V("jwk|non-json-gains-items", "%s: input is not JSON but %d item(s) appeared: %s", ep_name[ep], d.n, vf_escn(doc, len > 200 ? 200 : len));
			} else {
				if (d.set_err)
					C07V("jwk|json-but-set-error", "%s: input is JSON but the set reports an error (%s): %s", ep_name[ep], jwks_error_msg(s),
						     vf_escn(doc, len > 200 ? 200 : len));
				if (want_items >= 0 && d.n != want_items)
					C07V("jwk|item-count-differs", "%s: %d new item(s), expected %d: %s", ep_name[ep], d.n, want_items, vf_escn(doc, len > 300 ? 300 : len));
			}
			for (int i = 0; i < d.n && i < 24; i++) {
				if (d.it[i].err) {
					c07_items_err++;
					if (!d.it[i].has_msg)
						C07V("jwk|bad-item-without-message", "%s: item %d has error but no message: %s", ep_name[ep], i, vf_escn(doc, len > 300 ? 300 : len));
				} else {
					c07_items_ok++;
					if (d.it[i].kty == JWK_KEY_TYPE_NONE || !d.it[i].has_material)
						C07V("jwk|unusable-item-without-error", "%s: item %d reports no error but kty=%d material=%d: %s", ep_name[ep], i, d.it[i].kty,
							     d.it[i].has_material, vf_escn(doc, len > 300 ? 300 : len));
				}
			}
			if (have_first && !dsum_same(&first, &d))
				C07V("jwk|entry-points-disagree", "%s disagrees with the first entry point on: %s", ep_name[ep], vf_escn(doc, len > 300 ? 300 : len));
			if (!have_first) {
				first = d;
				have_first = 1;
			}
		}
		jwks_free(s);
	}
	/* document order: the set as a whole equals its elements loaded one by one */
	if (j && json_is_object(j) && json_is_array(json_object_get(j, "keys")) && strlen(doc) == len && have_first) {
		json_t *keys = json_object_get(j, "keys"), *el;
		size_t i;
		json_array_foreach(keys, i, el) {
			char *txt = tok_jdump(el, JSON_COMPACT | JSON_ENCODE_ANY);
			jwk_set_t *s1 = jwks_create(txt);
			dsum_t d1;
			summarize(s1, 0, &d1, 0);
			if ((int)i < first.n && i < 24 && d1.n == 1 &&
			    (d1.it[0].kty != first.it[i].kty || d1.it[0].err != first.it[i].err || strcmp(d1.it[0].kid, first.it[i].kid)))
				C07V("jwk|document-order-differs", "element %zu loaded alone is (kty %d, err %d, kid %s) but item %zu of the set is (kty %d, err %d, kid %s): %s", i,
					     d1.it[0].kty, d1.it[0].err, d1.it[0].kid, i, first.it[i].kty, first.it[i].err, first.it[i].kid, vf_escn(doc, len > 200 ? 200 : len));
			jwks_free(s1);
			free(txt);
		}
	}
	json_decref(j);
}

struct c07arg {
	const char *doc;
	size_t len;
	unsigned epmask;
	int use;
	int judge;
};
static int c07_quiet;
static void c07_run(void *a)
{
	struct c07arg *x = a;
	c07_doc(x->doc, x->len, x->epmask, x->use);
}

/* one document = judged run + leak confirmation */
static void c07_case_doc(const char *doc, size_t len, unsigned epmask, int use)
{
	struct c07arg a = { doc, len, epmask, use, 1 };
	long before = vk_live();
	c07_run(&a);
	long after = vk_live();
	if (after != before) {
		int per = leak_guard(c07_run, &a);
		if (per)
			vf_violation("jwk|leak", "loading leaks %d block(s) per run: %s", per, vf_escn(doc, len > 300 ? 300 : len));
	}
	(void)c07_quiet;
}

#define EP_ALL ((1u << NEP) - 1)
#define EP_STR ((1u << EP_LOAD) | (1u << EP_CREATE_STRN))

/* ---- the type-confusion matrix ---- */
static const char *MEMBERS[] = { "kty", "alg", "use", "key_ops", "kid", "n", "e", "d", "p", "q", "dp", "dq", "qi", "crv", "x", "y", "k" };
#define NMEM 17
static const char *SHAPES[] = { NULL /* absent */, "null", "true", "0", "1.5", "[]", "[\"x\"]", "{}", "\"\"", "\"!\"", "\"A\"", "\"AAAA\"", "\"-_-_\"", "\"RS256\"", "\"PS256\"", "\"P-256\"",
				/* text that is valid JSON/UTF-8 but not base64url: non-ASCII characters (2- and 3-byte), leading and embedded padding */
				"\"\\u00b0\\u00b0\\u00b0\\u00b0\"", "\"AA\\u20acA\"", "\"==\"", "\"=AAA\"", "\"AAAA=AAAA\"",
				/* well-formed but over-long values: 48 and 69 octets (longer than any EC coordinate of the templates) */
				"\"QUJDQUJDQUJDQUJDQUJDQUJDQUJDQUJDQUJDQUJDQUJDQUJDQUJDQUJDQUJDQUJD\"",
				"\"QUJDQUJDQUJDQUJDQUJDQUJDQUJDQUJDQUJDQUJDQUJDQUJDQUJDQUJDQUJDQUJDQUJDQUJDQUJDQUJDQUJDQUJDQUJD\"",
				/* filled in by c07_templates(): 600 characters (longer than any fixed-size scratch area), once decodable, once with a foreign character */
				NULL, NULL };
#define NSHAPE 25
static char LONGSHAPE[2][640];
static const char *shape_label(int i) { return SHAPES[i] ? SHAPES[i] : "<absent>"; }

static json_t *TEMPL[12];
static const char *templ_name[12];
static int NTEMPL;

static void c07_templates(void)
{
	unsigned char k[32];
	vk_oct_bytes(5, k, 32);
	for (int i = 0; i < 2; i++) {
		LONGSHAPE[i][0] = '"';
		memset(LONGSHAPE[i] + 1, 'Q', 600);
		if (i)
			LONGSHAPE[i][301] = '!';
		strcpy(LONGSHAPE[i] + 601, "\"");
		SHAPES[NSHAPE - 2 + i] = LONGSHAPE[i];
	}
#define ADDT(nm, j) do { templ_name[NTEMPL] = nm; TEMPL[NTEMPL++] = (j); } while (0)
	ADDT("RSA-private", json_deep_copy(vk_get("rsa2048a")->priv_jwk));
	ADDT("RSA-public", json_deep_copy(vk_get("rsa2048a")->pub_jwk));
	ADDT("EC-private", json_deep_copy(vk_get("p256a")->priv_jwk));
	ADDT("EC-public", json_deep_copy(vk_get("p256a")->pub_jwk));
	ADDT("OKP-private", json_deep_copy(vk_get("ed25519a")->priv_jwk));
	ADDT("OKP-public", json_deep_copy(vk_get("ed25519a")->pub_jwk));
	char *o = vk_oct_jwk(k, 32, NULL, NULL);
	ADDT("oct", json_loads(o, 0, NULL));
	free(o);
	ADDT("kty-unknown", json_loads("{\"kty\":\"ZZ\",\"x\":\"AAAA\"}", 0, NULL));
	ADDT("kty-absent", json_loads("{\"n\":\"AAAA\",\"e\":\"AQAB\"}", 0, NULL));
	ADDT("kty-number", json_loads("{\"kty\":7,\"k\":\"AAAA\"}", 0, NULL));
}

static char *deviate(const json_t *templ, int m1, int s1, int m2, int s2)
{
	json_t *j = json_deep_copy(templ);
	int ms[2] = { m1, m2 }, ss[2] = { s1, s2 };
	for (int i = 0; i < 2; i++) {
		if (ms[i] < 0)
			continue;
		if (!SHAPES[ss[i]])
			json_object_del(j, MEMBERS[ms[i]]);
		else
			json_object_set_new(j, MEMBERS[ms[i]], json_loads(SHAPES[ss[i]], JSON_DECODE_ANY, NULL));
	}
	char *t = tok_jdump(j, JSON_COMPACT);
	json_decref(j);
	return t;
}

static void enumerate_c07(void)
{
	c16_docs();
	c07_templates();
	/* A. every string of length <= 4 over a small alphabet (almost none is JSON) */
	static const char ABC[] = "{}[]\":,k1 n";
	int na = (int)strlen(ABC);
	if (vf_case("short strings: empty, and all of length 1 over '%s'", ABC)) {
		c07_case_doc("", 0, EP_ALL, 0);
		for (int a = 0; a < na; a++) {
			char s[2] = { ABC[a], 0 };
			c07_case_doc(s, 1, EP_ALL, 0);
		}
	}
	for (int a = 0; a < na; a++)
		for (int b = 0; b < na; b++) {
			if (!vf_case("short strings of length 2..4 starting '%c%c' over '%s'", ABC[a], ABC[b], ABC))
				continue;
			char s[5] = { ABC[a], ABC[b], 0, 0, 0 };
			c07_case_doc(s, 2, EP_STR, 0);
			for (int c = 0; c < na; c++) {
				s[2] = ABC[c];
				s[3] = 0;
				c07_case_doc(s, 3, EP_STR, 0);
				for (int d = 0; d < na; d++) {
					s[3] = ABC[d];
					c07_case_doc(s, 4, 1u << EP_CREATE_STRN, 0);
				}
			}
		}
	/* B. truncations of a valid three-key JWKS at every byte, and the same with a NUL / junk appended */
	size_t full = strlen(DOC_SET);
	for (size_t cut = 0; cut <= full; cut++) {
		if (!vf_case("truncation of a 3-key JWKS at byte %zu of %zu", cut, full))
			continue;
		char *t = malloc(full + 16);
		memcpy(t, DOC_SET, cut);
		t[cut] = 0;
		c07_case_doc(t, cut, (1u << EP_CREATE) | (1u << EP_CREATE_STRN) | (1u << EP_FP) | (1u << EP_FILE), 0);
		/* counted readers with an embedded NUL right after the cut */
		memcpy(t + cut + 1, "{}", 3);
		c07_case_doc(t, cut + 3, (1u << EP_CREATE_STRN) | (1u << EP_LOAD_STRN), 0);
		free(t);
	}
	/* C. every JSON type as document and as the value of "keys"; mixed arrays */
	{
		static const char *elems[] = { "null", "true", "0", "1.5", "\"s\"", "[]", "[1]", "{}", "{\"kty\":\"oct\"}", "%A", "%B", "{\"kty\":\"oct\",\"k\":\"AAAA\",\"kid\":\"z\"}" };
		int ne = sizeof elems / sizeof *elems;
		char doc[16384];
		for (int i = 0; i < ne; i++) {
			const char *e = !strcmp(elems[i], "%A") ? DOC_A : !strcmp(elems[i], "%B") ? DOC_B : elems[i];
			if (vf_case("document is the bare value %s", elems[i]))
				c07_case_doc(e, strlen(e), EP_ALL, 1);
			if (vf_case("document is {\"keys\": %s}", elems[i])) {
				snprintf(doc, sizeof doc, "{\"keys\":%s}", e);
				c07_case_doc(doc, strlen(doc), EP_ALL, 1);
			}
			if (vf_case("document is {\"keys\": [%s]} / extra members around", elems[i])) {
				snprintf(doc, sizeof doc, "{\"keys\":[%s]}", e);
				c07_case_doc(doc, strlen(doc), EP_ALL, 1);
				snprintf(doc, sizeof doc, "{\"a\":1,\"keys\":[%s],\"kty\":\"oct\",\"k\":\"AAAA\"}", e);
				c07_case_doc(doc, strlen(doc), EP_ALL, 1);
			}
			for (int k = 0; k < ne; k++) {
				if (!vf_case("document is {\"keys\": [%s, %s, good]} and permutations", elems[i], elems[k]))
					continue;
				const char *f = !strcmp(elems[k], "%A") ? DOC_A : !strcmp(elems[k], "%B") ? DOC_B : elems[k];
				snprintf(doc, sizeof doc, "{\"keys\":[%s,%s,%s]}", e, f, DOC_A);
				c07_case_doc(doc, strlen(doc), EP_ALL, 0);
				snprintf(doc, sizeof doc, "{\"keys\":[%s,%s,%s]}", DOC_A, e, f);
				c07_case_doc(doc, strlen(doc), EP_STR, 0);
				snprintf(doc, sizeof doc, "{\"keys\":[%s,%s,%s]}", e, DOC_B, f);
				c07_case_doc(doc, strlen(doc), EP_STR, 0);
			}
		}
		static const char *odd[] = { "{\"keys\":[],\"keys\":[{}]}", " \n\t{\"kty\":\"oct\",\"k\":\"AAAA\"}\n ", "{\"kty\":\"oct\",\"k\":\"AAAA\"} trailing", "{\"kty\":\"oct\",\"k\":\"AAAA\"}{}",
					     "\xef\xbb\xbf{}", "{\"kty\":\"oct\",\"k\":\"AA\\u0000AA\"}", "{\"kty\":\"o\\u0063t\",\"k\":\"AAAA\"}", "{\"KTY\":\"oct\",\"k\":\"AAAA\"}",
					     "{\"kty\":\"OCT\",\"k\":\"AAAA\"}", "{\"kty\":\"oct\",\"k\":\"AAAA\",\"kid\":\"\\ud83d\\ude00\"}", "[{\"kty\":\"oct\",\"k\":\"AAAA\"}]",
					     "{\"keys\":{\"0\":{\"kty\":\"oct\",\"k\":\"AAAA\"}}}", "{\"keys\":[[{\"kty\":\"oct\",\"k\":\"AAAA\"}]]}", "9999999999999999999999", "-", "nul", "\"unterminated",
					     /* elements of the keys array that have a member called keys themselves: one element, one item */
					     "{\"keys\":[{\"kty\":\"oct\",\"k\":\"AAAA\",\"keys\":[]},{\"kty\":\"oct\",\"k\":\"AAAA\",\"kid\":\"second\"}]}",
					     "{\"keys\":[{\"keys\":[{\"kty\":\"oct\",\"k\":\"AAAA\"},{\"kty\":\"oct\",\"k\":\"AAAA\"}]}]}",
					     "{\"keys\":[{\"kty\":\"oct\",\"k\":\"AAAA\",\"keys\":[{\"kty\":\"oct\",\"k\":\"BBBB\"}]}]}",
					     "{\"kty\":\"oct\",\"k\":\"AAAA\",\"keys\":null}", "{\"keys\":null}", "{\"keys\":5,\"kty\":\"oct\",\"k\":\"AAAA\"}",
					     /* text that does not parse and whose offending token, quoted back by the JSON parser in its error text, holds printf
					      * conversions: the message is data, never a format */
					     "\"%s%s%s%s", "\"%n%n%n%n", "\"%d%d%d%d", "\"100%x", "%s%s%s%s", "[%s%s%s%s]", "{\"%s%s%s%s\":%n}", "{\"kty\":\"%s%s%s%s" };
		for (unsigned i = 0; i < sizeof odd / sizeof *odd; i++)
			if (vf_case("odd document %s", vf_esc(odd[i])))
				c07_case_doc(odd[i], strlen(odd[i]), EP_ALL, 1);
		/* counted readers: every length around the text */
		static const char *cnt[] = { "{\"kty\":\"oct\",\"k\":\"AAAA\"}", "{\"keys\":[{\"kty\":\"oct\",\"k\":\"AAAA\"}]}", "[]", "5" };
		for (unsigned i = 0; i < sizeof cnt / sizeof *cnt; i++) {
			size_t L = strlen(cnt[i]);
			char buf[128];
			memset(buf, 0, sizeof buf);
			memcpy(buf, cnt[i], L);
			memcpy(buf + L + 1, "junk", 4);
			/* the counted readers and the file / FILE* readers see exactly l bytes, an embedded NUL included */
			for (size_t l = 0; l <= L + 6; l++)
				if (vf_case("counted and file readers with %zu bytes of a %zu-byte text %s (NUL and junk follow)", l, L, cnt[i]))
					c07_case_doc(buf, l, (1u << EP_LOAD_STRN) | (1u << EP_CREATE_STRN) | (1u << EP_FILE) | (1u << EP_FP), 0);
		}
		if (vf_case("NULL arguments and a missing file")) {
			jwk_set_t *s;
			if (jwks_load(NULL, NULL)) vf_violation("jwk|null-arg", "jwks_load(NULL,NULL) returned a set");
			if (jwks_load_strn(NULL, NULL, 0)) vf_violation("jwk|null-arg", "jwks_load_strn(NULL,NULL,0) returned a set");
			if (jwks_load_fromfile(NULL, NULL)) vf_violation("jwk|null-arg", "jwks_load_fromfile(NULL,NULL) returned a set");
			if (jwks_load_fromfp(NULL, NULL)) vf_violation("jwk|null-arg", "jwks_load_fromfp(NULL,NULL) returned a set");
			s = jwks_create(NULL);
			if (!s || jwks_error(s) || jwks_item_count(s)) vf_violation("jwk|create-null", "jwks_create(NULL) is not an empty, error-free set");
			jwks_free(s);
			s = jwks_create_fromfile("/nonexistent/verif-no-such-file.json");
			if (!s || !jwks_error(s) || !jwks_error_msg(s)[0] || jwks_item_count(s))
				vf_violation("jwk|missing-file", "missing file: set=%p error=%d items=%zu", (void *)s, s ? jwks_error(s) : -1, s ? jwks_item_count(s) : 0);
			jwks_free(s);
			vf_obs(1);
		}
	}
	/* D. type-confusion matrix: every member x every shape, single deviations; pairs in the thorough tier */
	for (int t = 0; t < NTEMPL; t++)
		for (int m = 0; m < NMEM; m++) {
			if (!vf_case("JWK %s with member %s given every shape", templ_name[t], MEMBERS[m]))
				continue;
			for (int sh = 0; sh < NSHAPE; sh++) {
				char *doc = deviate(TEMPL[t], m, sh, -1, 0);
				c07_case_doc(doc, strlen(doc), vf_thorough ? EP_ALL : (1u << EP_CREATE) | (sh % 4 == 0 ? (1u << EP_FP) : 0) | (sh % 4 == 1 ? (1u << EP_FILE) : 0) |
					     (sh % 4 == 2 ? (1u << EP_APPEND) : 0) | (sh % 4 == 3 ? (1u << EP_LOAD_STRN) : 0), 1);
				free(doc);
			}
		}
	/* quick tier: the pairs of the two commonest deviations (member absent, member null, member of another basic type) */
	if (!vf_thorough)
		for (int t = 0; t < NTEMPL; t++)
			for (int m1 = 0; m1 < NMEM; m1++) {
				if (!vf_case("JWK %s with member %s and every other member absent / null / true / a number / 3 octets / 48 octets / 69 octets", templ_name[t], MEMBERS[m1]))
					continue;
				static const int qs[] = { 0, 1, 2, 3, 11 /* "AAAA" */, 21 /* 48 octets */, 22 /* 69 octets */ };
				for (int m2 = m1 + 1; m2 < NMEM; m2++)
					for (int i1 = 0; i1 < 7; i1++)
						for (int i2 = 0; i2 < 7; i2++) {
							int s1 = qs[i1], s2 = qs[i2];
							char *doc = deviate(TEMPL[t], m1, s1, m2, s2);
							c07_case_doc(doc, strlen(doc), 1u << EP_CREATE, 1);
							free(doc);
						}
			}
	if (vf_thorough)
		for (int t = 0; t < NTEMPL; t++)
			for (int m1 = 0; m1 < NMEM; m1++)
				for (int m2 = m1 + 1; m2 < NMEM; m2++) {
					if (!vf_case("JWK %s with members %s and %s given every pair of shapes", templ_name[t], MEMBERS[m1], MEMBERS[m2]))
						continue;
					for (int s1 = 0; s1 < NSHAPE; s1++)
						for (int s2 = 0; s2 < NSHAPE; s2++) {
							char *doc = deviate(TEMPL[t], m1, s1, m2, s2);
							c07_case_doc(doc, strlen(doc), 1u << EP_CREATE, 1);
							free(doc);
						}
				}
	vf_count("evaluations", c07_loads);
	vf_count("items_usable", c07_items_ok);
	vf_count("items_with_error", c07_items_err);
	vf_count("documents_not_json", c07_nonjson);
}

/* ================================================================== C08 */
static const char *KIDS[] = { NULL, "k", "%LONG", "\xd0\xba\xd0\xbb\xd1\x8e\xd1\x87", "", "%L255", "%L256", "%L257", "%L4096" };
#define NKID 9
static const char *USES[] = { NULL, "\"sig\"", "\"enc\"", "\"SIG\"", "\"\"", "5" };
#define NUSE 6
static const char *OPSV[] = { NULL, "[]", "[\"sign\"]", "[\"verify\"]", "[\"sign\",\"verify\"]", "[\"encrypt\"]", "[\"sign\",\"encrypt\"]", "[\"verify\",\"encrypt\"]",
			      "[\"sign\",\"verify\",\"encrypt\"]", "[\"wrapKey\"]", "[\"sign\",\"wrapKey\"]", "[\"verify\",\"wrapKey\"]", "[\"sign\",\"verify\",\"wrapKey\"]",
			      "[\"encrypt\",\"wrapKey\"]", "[\"sign\",\"encrypt\",\"wrapKey\"]", "[\"verify\",\"encrypt\",\"wrapKey\"]", "[\"sign\",\"verify\",\"encrypt\",\"wrapKey\"]",
			      "[\"sign\",\"bogus\"]", "[\"decrypt\",\"unwrapKey\",\"deriveKey\",\"deriveBits\"]", "\"sign\"", "[1,\"verify\"]", "[\"Sign\"]" };
#define NOPSV 22
static const char *FOREIGN[][2] = { { NULL, NULL }, { "k", "\"AAAA\"" }, { "n", "\"AQAB\"" }, { "crv", "\"P-521\"" }, { "x5c", "[\"MIIB\"]" }, { "d", "\"AAAA\"" },
				    { "zz", "{\"a\":[1,2]}" }, { "p", "\"AQAB\"" }, { "y", "\"AAAA\"" }, { "x", "\"AAAA\"" }, { "e", "\"AQAB\"" }, { "oth", "[]" } };
#define NFOREIGN 12

static int own_member(const char *kty, const char *m)
{
	static const char *rsa[] = { "n", "e", "d", "p", "q", "dp", "dq", "qi", NULL }, *ec[] = { "crv", "x", "y", "d", NULL }, *okp[] = { "crv", "x", "d", NULL }, *oct[] = { "k", NULL };
	const char **l = !strcmp(kty, "RSA") ? rsa : !strcmp(kty, "EC") ? ec : !strcmp(kty, "OKP") ? okp : oct;
	for (; *l; l++)
		if (!strcmp(*l, m))
			return 1;
	return 0;
}

static int alg_choices(const char *kty, int bits, const char **out)
{
	int n = 0;
	out[n++] = NULL;
	if (!strcmp(kty, "RSA")) {
		out[n++] = "RS256"; out[n++] = "RS384"; out[n++] = "RS512"; out[n++] = "PS256"; out[n++] = "PS384"; out[n++] = "PS512";
	} else if (!strcmp(kty, "EC"))
		out[n++] = bits == 384 ? "ES384" : bits == 521 ? "ES512" : "ES256";
	else if (!strcmp(kty, "OKP"))
		out[n++] = "EdDSA";
	else {
		out[n++] = "HS256"; out[n++] = "HS384"; out[n++] = "HS512";
	}
	return n;
}

/* re-encode a base64url integer member: enc 0 canonical as given, 1/2 = that many leading zero bytes, 3 = minimal */
static void reencode_int(json_t *j, const char *name, int enc)
{
	json_t *v = json_object_get(j, name);
	if (!v || !json_is_string(v) || enc == 0)
		return;
	const char *s = json_string_value(v);
	unsigned char buf[1200], out[1200];
	long n = ref_b64_decode_strict(s, strlen(s), buf);
	if (n <= 0)
		return;
	size_t o = 0;
	if (enc == 3) {
		long skip = 0;
		while (skip < n - 1 && buf[skip] == 0)
			skip++;
		memcpy(out, buf + skip, n - skip);
		o = n - skip;
	} else {
		memset(out, 0, enc);
		memcpy(out + enc, buf, n);
		o = n + enc;
	}
	char txt[1700];
	ref_b64_encode(out, o, txt);
	json_object_set_new(j, name, json_string(txt));
}

static BIGNUM *member_bn(const json_t *j, const char *name)
{
	json_t *v = json_object_get(j, name);
	unsigned char buf[1200];
	if (!v || !json_is_string(v))
		return NULL;
	long n = ref_b64_decode_prefix(json_string_value(v), json_string_length(v), buf);
	return n > 0 ? BN_bin2bn(buf, (int)n, NULL) : NULL;
}

static long c08_imports, c08_compared, c08_noncanon_refused;

typedef struct {
	const vk_t *vk;     /* NULL = oct */
	int priv;
	size_t octlen;
	int alg_i, kid_i, use_i, ops_i, enc_i, for_i;
} c08cfg_t;

/* compare the imported item with an independent reading of the JWK j */
static void c08_compare(const c08cfg_t *c, const json_t *j, const jwk_item_t *it, const char *doc, const char **algs)
{
	const char *kty = c->vk ? c->vk->kty : "oct";
#define MISMATCH(key, ...) vf_violation(key, __VA_ARGS__)
	/* ---- metadata ---- */
	int want_kty = !strcmp(kty, "RSA") ? JWK_KEY_TYPE_RSA : !strcmp(kty, "EC") ? JWK_KEY_TYPE_EC : !strcmp(kty, "OKP") ? JWK_KEY_TYPE_OKP : JWK_KEY_TYPE_OCT;
	if ((int)jwks_item_kty(it) != want_kty)
		MISMATCH("import|kty-differs", "kty %d, JWK says %s: %s", jwks_item_kty(it), kty, doc);
	int want_priv = c->vk ? c->priv : 1;
	if (jwks_item_is_private(it) != want_priv)
		MISMATCH("import|private-flag-differs", "is_private=%d, JWK is %s: %s", jwks_item_is_private(it), want_priv ? "private" : "public", doc);
	jwt_alg_t want_alg = algs[c->alg_i] ? tok_alg_of(algs[c->alg_i]) : JWT_ALG_NONE;
	if (jwks_item_alg(it) != want_alg)
		MISMATCH("import|alg-differs", "alg %d, JWK says %s: %s", jwks_item_alg(it), algs[c->alg_i] ? algs[c->alg_i] : "(none)", doc);
	json_t *jk = json_object_get(j, "kid");
	const char *want_kid = jk && json_is_string(jk) && json_string_length(jk) ? json_string_value(jk) : NULL;
	const char *kid = jwks_item_kid(it);
	if ((kid == NULL) != (want_kid == NULL) || (kid && strcmp(kid, want_kid)))
		MISMATCH("import|kid-differs", "kid '%s', JWK says '%s'", kid ? kid : "(null)", want_kid ? want_kid : "(none)");
	json_t *ju = json_object_get(j, "use");
	int want_use = ju && json_is_string(ju) ? (!strcmp(json_string_value(ju), "sig") ? JWK_PUB_KEY_USE_SIG : !strcmp(json_string_value(ju), "enc") ? JWK_PUB_KEY_USE_ENC : 0) : 0;
	if ((int)jwks_item_use(it) != want_use)
		MISMATCH("import|use-differs", "use %d, JWK says %s: %.200s", jwks_item_use(it), USES[c->use_i] ? USES[c->use_i] : "(none)", doc);
	int want_ops = 0;
	json_t *jo = json_object_get(j, "key_ops"), *el;
	size_t idx;
	if (jo && json_is_array(jo))
		json_array_foreach(jo, idx, el) {
			static const char *names[] = { "sign", "verify", "encrypt", "decrypt", "wrapKey", "unwrapKey", "deriveKey", "deriveBits" };
			if (json_is_string(el))
				for (int b = 0; b < 8; b++)
					if (!strcmp(json_string_value(el), names[b]))
						want_ops |= 1 << b;
		}
	if ((int)jwks_item_key_ops(it) != want_ops)
		MISMATCH("import|key_ops-differs", "key_ops %#x, JWK says %s (%#x)", jwks_item_key_ops(it), OPSV[c->ops_i] ? OPSV[c->ops_i] : "(none)", want_ops);
	/* ---- key material ---- */
	if (!c->vk) {
		const unsigned char *ob = NULL;
		size_t ol = 0;
		unsigned char want[600];
		vk_oct_bytes((int)c->octlen, want, c->octlen);
		if (jwks_item_key_oct(it, &ob, &ol) || ol != c->octlen || memcmp(ob, want, ol))
			MISMATCH("import|oct-bytes-differ", "oct key of %zu bytes imported as %zu bytes", c->octlen, ol);
		if (jwks_item_key_bits(it) != (int)(8 * c->octlen))
			MISMATCH("import|bits-differ", "oct key of %zu bytes reports %d bits", c->octlen, jwks_item_key_bits(it));
		c08_compared++;
		return;
	}
	if (jwks_item_key_bits(it) != c->vk->bits)
		MISMATCH("import|bits-differ", "%s reports %d bits, key has %d (enc variant %d)", c->vk->name, jwks_item_key_bits(it), c->vk->bits, c->enc_i);
	if (!strcmp(kty, "RSA")) {
		if (jwks_item_curve(it))
			MISMATCH("import|curve-differs", "RSA key reports curve %s", jwks_item_curve(it));
	} else if (!jwks_item_curve(it) || strcmp(jwks_item_curve(it), c->vk->crv))
		MISMATCH("import|curve-differs", "curve %s, JWK says %s", jwks_item_curve(it) ? jwks_item_curve(it) : "(null)", c->vk->crv);
	const char *pem = jwks_item_pem(it);
	if (!pem) {
		MISMATCH("import|no-pem", "no PEM for %s", c->vk->name);
		return;
	}
	BIO *bio = BIO_new_mem_buf(pem, -1);
	EVP_PKEY *pk = c->priv ? PEM_read_bio_PrivateKey(bio, NULL, NULL, NULL) : PEM_read_bio_PUBKEY(bio, NULL, NULL, NULL);
	BIO_free(bio);
	if (!pk) {
		MISMATCH("import|pem-unparsable", "libcrypto cannot parse the %s PEM of %s", c->priv ? "private" : "public", c->vk->name);
		return;
	}
	c08_compared++;
	if (!strcmp(kty, "RSA")) {
		static const char *jn[] = { "n", "e", "d", "p", "q", "dp", "dq", "qi" };
		static const char *on[] = { OSSL_PKEY_PARAM_RSA_N, OSSL_PKEY_PARAM_RSA_E, OSSL_PKEY_PARAM_RSA_D, OSSL_PKEY_PARAM_RSA_FACTOR1, OSSL_PKEY_PARAM_RSA_FACTOR2,
					    OSSL_PKEY_PARAM_RSA_EXPONENT1, OSSL_PKEY_PARAM_RSA_EXPONENT2, OSSL_PKEY_PARAM_RSA_COEFFICIENT1 };
		for (int m = 0; m < (c->priv ? 8 : 2); m++) {
			BIGNUM *want = member_bn(j, jn[m]), *got = NULL;
			EVP_PKEY_get_bn_param(pk, on[m], &got);
			if (!want || !got || BN_cmp(want, got)) {
				char key[64];
				snprintf(key, sizeof key, "import|rsa-%s-differs", jn[m]);
				MISMATCH(key, "%s: RSA member %s of the imported key differs from the JWK", c->vk->name, jn[m]);
			}
			BN_free(want);
			BN_free(got);
		}
		int is_pss = EVP_PKEY_is_a(pk, "RSA-PSS");
		int want_pss = algs[c->alg_i] && algs[c->alg_i][0] == 'P';
		vf_obs(is_pss * 2 + want_pss);
		/* the JWK's alg is what makes an RSA key an RSA-PSS key (a JWK has no other way to say so): every PS* value does, nothing else does */
		if (is_pss != want_pss)
			MISMATCH("import|rsa-key-type-differs", "%s with alg %s: the PEM holds an %s key", c->vk->name, algs[c->alg_i] ? algs[c->alg_i] : "(none)", is_pss ? "RSA-PSS" : "RSA");
	} else if (!strcmp(kty, "EC")) {
		char grp[64] = "";
		EVP_PKEY_get_group_name(pk, grp, sizeof grp, NULL);
		const char *wantgrp = !strcmp(c->vk->crv, "P-256") ? "prime256v1" : !strcmp(c->vk->crv, "P-384") ? "secp384r1" : !strcmp(c->vk->crv, "P-521") ? "secp521r1" : "secp256k1";
		if (strcmp(grp, wantgrp))
			MISMATCH("import|ec-group-differs", "%s: group %s, JWK says %s", c->vk->name, grp, c->vk->crv);
		static const char *jn[] = { "x", "y", "d" };
		static const char *on[] = { OSSL_PKEY_PARAM_EC_PUB_X, OSSL_PKEY_PARAM_EC_PUB_Y, OSSL_PKEY_PARAM_PRIV_KEY };
		for (int m = 0; m < (c->priv ? 3 : 2); m++) {
			BIGNUM *want = member_bn(j, jn[m]), *got = NULL;
			EVP_PKEY_get_bn_param(pk, on[m], &got);
			if (!want || !got || BN_cmp(want, got)) {
				char key[64];
				snprintf(key, sizeof key, "import|ec-%s-differs", jn[m]);
				MISMATCH(key, "%s: EC member %s of the imported key differs from the JWK (enc variant %d)", c->vk->name, jn[m], c->enc_i);
			}
			BN_free(want);
			BN_free(got);
		}
	} else {
		unsigned char raw[64], want[64];
		size_t rl = sizeof raw;
		json_t *jx = json_object_get(j, "x");
		long wl = ref_b64_decode_strict(json_string_value(jx), json_string_length(jx), want);
		if (EVP_PKEY_get_raw_public_key(pk, raw, &rl) != 1 || (long)rl != wl || memcmp(raw, want, rl))
			MISMATCH("import|okp-x-differs", "%s: OKP public key differs from x", c->vk->name);
		if (c->priv) {
			json_t *jd = json_object_get(j, "d");
			wl = ref_b64_decode_strict(json_string_value(jd), json_string_length(jd), want);
			rl = sizeof raw;
			if (EVP_PKEY_get_raw_private_key(pk, raw, &rl) != 1 || (long)rl != wl || memcmp(raw, want, rl))
				MISMATCH("import|okp-d-differs", "%s: OKP private key differs from d", c->vk->name);
		}
	}
	EVP_PKEY_free(pk);
}

static char *c08_build(const c08cfg_t *c, const char **algs, json_t **jout)
{
	json_t *j;
	const char *kty = c->vk ? c->vk->kty : "oct";
	if (c->vk)
		j = json_deep_copy(c->priv ? c->vk->priv_jwk : c->vk->pub_jwk);
	else {
		unsigned char k[600];
		char txt[900];
		vk_oct_bytes((int)c->octlen, k, c->octlen);
		ref_b64_encode(k, c->octlen, txt);
		/* oct encodings: 1 = padded with '=' to a multiple of four, 2 = followed by "====" (not RFC 7515 base64url: no import
		 * demand, but whatever is imported must still be the bytes ahead of the padding, and report their size) */
		if (c->enc_i == 1)
			strncat(txt, "===", (4 - strlen(txt) % 4) % 4);
		else if (c->enc_i == 2)
			strcat(txt, "====");
		j = json_pack("{ssss}", "kty", "oct", "k", txt);
	}
	if (algs[c->alg_i])
		json_object_set_new(j, "alg", json_string(algs[c->alg_i]));
	if (KIDS[c->kid_i]) {
		if (KIDS[c->kid_i][0] == '%') {
			/* long key ids, distinguishable at their very end */
			int n = !strcmp(KIDS[c->kid_i], "%LONG") ? 200 : atoi(KIDS[c->kid_i] + 2);
			char *l = malloc(n + 1);
			memset(l, 'k', n);
			l[n - 1] = 'Z';
			l[n] = 0;
			json_object_set_new(j, "kid", json_string(l));
			free(l);
		} else
			json_object_set_new(j, "kid", json_string(KIDS[c->kid_i]));
	}
	if (USES[c->use_i])
		json_object_set_new(j, "use", json_loads(USES[c->use_i], JSON_DECODE_ANY, NULL));
	if (OPSV[c->ops_i])
		json_object_set_new(j, "key_ops", json_loads(OPSV[c->ops_i], JSON_DECODE_ANY, NULL));
	if (c->enc_i && c->vk && strcmp(kty, "OKP")) {
		static const char *ints[] = { "n", "e", "d", "p", "q", "dp", "dq", "qi", "x", "y" };
		for (unsigned i = 0; i < sizeof ints / sizeof *ints; i++)
			reencode_int(j, ints[i], c->enc_i);
	}
	if (FOREIGN[c->for_i][0] && !own_member(kty, FOREIGN[c->for_i][0]))
		json_object_set_new(j, FOREIGN[c->for_i][0], json_loads(FOREIGN[c->for_i][1], JSON_DECODE_ANY, NULL));
	*jout = j;
	return tok_jdump(j, JSON_COMPACT);
}

static void c08_one(const c08cfg_t *c, const char **algs)
{
	json_t *j;
	char *doc = c08_build(c, algs, &j);
	jwk_set_t *set = jwks_create(doc);
	const jwk_item_t *it = set ? jwks_item_get(set, 0) : NULL;
	c08_imports++;
	if (!it || jwks_item_count(set) != 1)
		vf_violation("import|no-item", "no single item for %.300s", doc);
	else if (jwks_item_error(it) && !c->vk && c->enc_i) {
		vf_obs(4);   /* padded k refused: allowed */
	} else if (jwks_item_error(it)) {
		vf_obs(3);
		/* the quantifier names minimal-length and zero-padded integer encodings explicitly: they must import too */
		if (c->enc_i != 0)
			c08_noncanon_refused++;
		vf_violation(c->enc_i == 0 ? "import|well-formed-jwk-refused" : c->enc_i == 3 ? "import|minimal-length-encoding-refused" : "import|zero-padded-encoding-refused",
			     "%s %s (integer encoding variant %d) refused: %s: %.300s", c->vk ? c->vk->name : "oct", c->priv ? "private" : "public", c->enc_i, jwks_item_error_msg(it), doc);
	} else {
		vf_obs(1);
		c08_compare(c, j, it, doc, algs);
		/* a foreign member must not change anything: compare with the import of the same JWK without it */
		if (FOREIGN[c->for_i][0] && !own_member(c->vk ? c->vk->kty : "oct", FOREIGN[c->for_i][0])) {
			c08cfg_t c2 = *c;
			json_t *j2;
			c2.for_i = 0;
			char *doc2 = c08_build(&c2, algs, &j2);
			jwk_set_t *set2 = jwks_create(doc2);
			const jwk_item_t *i2 = jwks_item_get(set2, 0);
			const char *p1 = jwks_item_pem(it), *p2 = i2 ? jwks_item_pem(i2) : NULL;
			if (!i2 || jwks_item_error(i2) || (p1 == NULL) != (p2 == NULL) || (p1 && strcmp(p1, p2)) || jwks_item_key_bits(it) != jwks_item_key_bits(i2) ||
			    jwks_item_alg(it) != jwks_item_alg(i2) || jwks_item_is_private(it) != jwks_item_is_private(i2))
				vf_violation("import|foreign-member-changes-key", "member %s changed the imported %s key", FOREIGN[c->for_i][0], c->vk ? c->vk->name : "oct");
			jwks_free(set2);
			json_decref(j2);
			free(doc2);
		}
		vf_nontrivial(vf_hash_str(doc));
	}
	jwks_free(set);
	json_decref(j);
	free(doc);
}

/* defective keys imported just before a well-formed one (their failures must leave nothing behind that the next import sees) */
static const char *C08_PRED[] = {
	"{\"kty\":\"EC\",\"crv\":\"P-256\",\"x\":\"AQEBAQEBAQEBAQEBAQEBAQEBAQEBAQEBAQEBAQEBAQE\",\"y\":\"AgICAgICAgICAgICAgICAgICAgICAgICAgICAgICAgI\"}",
	"{\"kty\":\"EC\",\"crv\":\"P-999\",\"x\":\"AQEBAQEBAQEBAQEBAQEBAQEBAQEBAQEBAQEBAQEBAQE\",\"y\":\"AgICAgICAgICAgICAgICAgICAgICAgICAgICAgICAgI\"}",
	"{\"kty\":\"EC\",\"crv\":\"P-384\",\"x\":\"AQEB\",\"y\":\"AgIC\",\"d\":\"AwMD\"}",
	"{\"kty\":\"OKP\",\"crv\":\"Ed25519\",\"x\":\"AAAA\"}",
	"{\"kty\":\"OKP\",\"crv\":\"Ed448\",\"x\":\"AQEBAQEBAQEBAQEBAQEBAQEBAQEBAQEBAQEBAQEBAQE\",\"d\":\"AQEB\"}",
	"{\"kty\":\"RSA\",\"n\":\"AA\",\"e\":\"AA\"}",
	"{\"kty\":\"RSA\",\"n\":\"AQAB\",\"e\":\"AQAB\",\"d\":\"AQAB\",\"p\":\"AA\",\"q\":\"AA\",\"dp\":\"AA\",\"dq\":\"AA\",\"qi\":\"AA\"}",
	"{\"kty\":\"oct\",\"k\":\"A\"}",
};
#define NC08PRED ((int)(sizeof C08_PRED / sizeof *C08_PRED))
static long c08_pred_errors;

static void c08_after(const c08cfg_t *c, const char **algs, int pred, int how)
{
	json_t *j;
	char *doc = c08_build(c, algs, &j);
	jwk_set_t *first = NULL, *set;
	const jwk_item_t *it;
	if (how == 2) {
		/* the same JWKS: defective key first, then the well-formed one */
		char *both = malloc(strlen(doc) + strlen(C08_PRED[pred]) + 32);
		sprintf(both, "{\"keys\":[%s,%s]}", C08_PRED[pred], doc);
		set = jwks_create(both);
		free(both);
		it = set && jwks_item_count(set) == 2 ? jwks_item_get(set, 1) : NULL;
		if (set && jwks_item_count(set) == 2 && jwks_item_error(jwks_item_get(set, 0)))
			c08_pred_errors++;
	} else {
		/* a set of its own, still alive (how 0) or already freed (how 1) when the well-formed key is imported */
		first = jwks_create(C08_PRED[pred]);
		if (first && jwks_item_count(first) && jwks_item_error(jwks_item_get(first, 0)))
			c08_pred_errors++;
		if (how == 1) {
			jwks_free(first);
			first = NULL;
		}
		set = jwks_create(doc);
		it = set && jwks_item_count(set) == 1 ? jwks_item_get(set, 0) : NULL;
	}
	c08_imports++;
	if (!it)
		vf_violation("import|no-item", "no item for a well-formed JWK imported after a defective one: %.300s", doc);
	else if (jwks_item_error(it))
		vf_violation("import|well-formed-jwk-refused-after-defective-one", "%s %s refused after %s: %s", c->vk ? c->vk->name : "oct", c->priv ? "private" : "public",
			     C08_PRED[pred], jwks_item_error_msg(it));
	else {
		vf_obs(1);
		c08_compare(c, j, it, doc, algs);
		vf_nontrivial(vf_hash_mix(vf_hash_str(doc), pred * 3 + how));
	}
	jwks_free(set);
	jwks_free(first);
	json_decref(j);
	free(doc);
}

static void enumerate_c08(void)
{
	static const char *product_keys[] = { "rsa2048a", "p256_x0", "p521_y0", "ed25519a", "k256_d0", "rsapss2048" };
	for (int k = -1; k < vk_n; k++) {
		const vk_t *vk = k < 0 ? NULL : &vk_pool[k];
		if (vk && !strcmp(vk->crv, "X25519"))
			continue;   /* not a signature key: C09 covers the refusal */
		const char *algs[8];
		int nalg = alg_choices(vk ? vk->kty : "oct", vk ? vk->bits : 0, algs);
		int nenc = !vk || !strcmp(vk->kty, "OKP") ? 1 : !strcmp(vk->kty, "EC") ? 4 : 3;
		for (int priv = 1; priv >= (vk ? 0 : 1); priv--) {
			int dims[6] = { nalg, NKID, NUSE, NOPSV, nenc, NFOREIGN };
			int product = 0;
			for (unsigned i = 0; vk && i < sizeof product_keys / sizeof *product_keys; i++)
				if (!strcmp(vk->name, product_keys[i]))
					product = 1;
			/* sweeps: every dimension alone, then every pair of dimensions, others at default */
			for (int d1 = 0; d1 < 6; d1++)
				for (int d2 = d1; d2 < 6; d2++) {
					if (!vf_case("%s %s: dimensions %d x %d swept (alg,kid,use,key_ops,encoding,foreign)", vk ? vk->name : "oct-64", priv ? "private" : "public", d1, d2))
						continue;
					for (int a = 0; a < dims[d1]; a++)
						for (int b = 0; b < (d1 == d2 ? 1 : dims[d2]); b++) {
							int v[6] = { 0, 0, 0, 0, 0, 0 };
							v[d1] = a;
							if (d1 != d2)
								v[d2] = b;
							c08cfg_t c = { vk, priv, 64, v[0], v[1], v[2], v[3], v[4], v[5] };
							c08_one(&c, algs);
						}
				}
			/* thorough: the full product for the representative keys */
			if (vf_thorough && product)
				for (int a = 0; a < nalg; a++)
					for (int e = 0; e < nenc; e++)
						for (int f = 0; f < NFOREIGN; f++) {
							if (!vf_case("%s %s: full product kid x use x key_ops with alg %s, encoding %d, foreign %s", vk->name, priv ? "private" : "public",
								     algs[a] ? algs[a] : "-", e, FOREIGN[f][0] ? FOREIGN[f][0] : "-"))
								continue;
							for (int kd = 0; kd < NKID; kd++)
								for (int u = 0; u < NUSE; u++)
									for (int o = 0; o < NOPSV; o++) {
										c08cfg_t c = { vk, priv, 64, a, kd, u, o, e, f };
										c08_one(&c, algs);
									}
						}
		}
	}
	/* every pool key (and an oct key) imported right after each defective key */
	for (int k = -1; k < vk_n; k++) {
		const vk_t *vk = k < 0 ? NULL : &vk_pool[k];
		if (vk && !strcmp(vk->crv, "X25519"))
			continue;
		const char *algs[8];
		alg_choices(vk ? vk->kty : "oct", vk ? vk->bits : 0, algs);
		for (int priv = 1; priv >= (vk ? 0 : 1); priv--) {
			if (!vf_case("%s %s imported after each of %d defective keys (separate set alive / freed, same JWKS)", vk ? vk->name : "oct-64", priv ? "private" : "public", NC08PRED))
				continue;
			for (int pred = 0; pred < NC08PRED; pred++)
				for (int how = 0; how < 3; how++) {
					c08cfg_t c = { vk, priv, 64, 0, 0, 0, 0, 0, 0 };
					c08_after(&c, algs, pred, how);
				}
		}
	}
	vf_count("defective_predecessors_that_errored", c08_pred_errors);
	/* oct keys of every length 1..512 */
	{
		const char *algs[8];
		alg_choices("oct", 0, algs);
		for (int len = 1; len <= 512; len++) {
			if (!vf_case("oct key of %d bytes, with and without alg/kid/foreign members", len))
				continue;
			for (int a = 0; a < 2; a++)
				for (int f = 0; f < 4; f++) {
					c08cfg_t c = { NULL, 1, (size_t)len, a, f % 2, 0, 0, 0, f == 0 ? 0 : f == 1 ? 2 : f == 2 ? 5 : 6 };
					c08_one(&c, algs);
				}
			for (int e = 1; e <= 2; e++) {
				size_t tl = (len * 4 + 2) / 3;
				if ((e == 1 && tl % 4 == 0) || (e == 2 && (tl + 4) % 4 == 1))
					continue;
				c08cfg_t c = { NULL, 1, (size_t)len, 0, 0, 0, 0, e, 0 };
				c08_one(&c, algs);
			}
		}
	}
	vf_count("evaluations", c08_imports);
	vf_count("keys_compared_member_by_member", c08_compared);
	vf_count("noncanonical_encodings_refused", c08_noncanon_refused);
}

static void enumerate(void)
{
	vf_alloc_install();
	vk_load();
	lj_select_provider(vf_param);
	if (!strcmp(vf_prop, "C16"))
		enumerate_c16();
	else if (!strcmp(vf_prop, "C07"))
		enumerate_c07();
	else if (!strcmp(vf_prop, "C08"))
		enumerate_c08();
	else if (!strcmp(vf_prop, "C14")) {
		c14_projection = 1;
		enumerate_c07();
	}
	else {
		fprintf(stderr, "jwk: unknown --prop %s\n", vf_prop);
		exit(2);
	}
}

int main(int argc, char **argv)
{
	rc_track_alloc();
	return vf_main(argc, argv, enumerate);
}
