/* C11 -- base64url encode/decode: exhaustive small domains against ref_b64. */
#include "vf.h"
#include <openssl/hmac.h>
#include <openssl/evp.h>
#include "ref_b64.h"
#include <jwt.h>
#include <jansson.h>

/* internal (non-exported) library entry points; reachable through the static link */
int jwt_base64uri_encode(char **_dst, const char *plain, int plain_len);
void *jwt_base64uri_decode(const char *src, int *ret_len);
void __jwt_freemem(void *ptr);

static long n_eval, n_nontriv, n_accept, n_reject, nv;

static void viol(const char *key, const char *what, const void *in, size_t n)
{
	if (nv++ < 20)
		vf_violation(key, "%s input(hex)=%s", what, vf_hex(in, n > 64 ? 64 : n));
}

/* encode x, compare with the reference, decode the result, compare with x */
static void chk_encode(const unsigned char *x, size_t n)
{
	char refenc[4 * ((n + 2) / 3) + 4];
	char *enc = NULL;
	size_t rl = ref_b64_encode(x, n, refenc);
	int l = jwt_base64uri_encode(&enc, (const char *)x, (int)n);
	n_eval++;
	if (l < 0 || !enc) {
		viol("enc-fails", "encode failed", x, n);
		return;
	}
	if (strlen(enc) != rl || memcmp(enc, refenc, rl)) {
		viol("enc-differs", "encoding differs from RFC 4648 s5 unpadded", x, n);
		vf_obs(1);
	}
	if (n > 0) {
		int dl = -1;
		unsigned char *d = jwt_base64uri_decode(enc, &dl);
		if (!d || dl != (int)n || memcmp(d, x, n)) {
			viol("roundtrip-differs", "decode(encode(x)) != x", x, n);
			vf_obs(2);
		}
		if (d)
			__jwt_freemem(d);
		n_nontriv++;
	}
	__jwt_freemem(enc);
}

/* decode text s (NUL-terminated, length n) and judge it */
static inline void chk_decode(const char *s, size_t n)
{
	int dl = -1;
	unsigned char *d = jwt_base64uri_decode(s, &dl);
	int must = ref_b64_must_reject(s, n);
	n_eval++;
	if (!d) {
		n_reject++;
		return;
	}
	n_accept++;
	if (must == 1)
		viol("accepts-foreign", "accepted text with a foreign byte ahead of any '='", s, n);
	else if (must == 2)
		viol("accepts-len1mod4", "accepted text whose length is 1 mod 4", s, n);
	else {
		unsigned char ref[3 * n / 4 + 4];
		long rl = ref_b64_decode_prefix(s, n, ref);
		if (rl != dl || memcmp(ref, d, rl))
			viol("decode-differs", "accepted, but output differs from reference decoding", s, n);
		n_nontriv++;
	}
	__jwt_freemem(d);
}

static void flush_counts(void)
{
	vf_obs(vf_hash_mix(n_accept != 0, n_reject != 0));
	vf_count("evaluations", n_eval);
	vf_count("nontrivial", n_nontriv);
	vf_count("accepted", n_accept);
	vf_count("rejected", n_reject);
	n_eval = n_nontriv = n_accept = n_reject = 0;
	nv = 0;
}

static const unsigned char classes12[12] = { 0x00, 0x01, 0x3e, 0x3f, 0x40, 0x7f, 0x80, 0xbf, 0xc0, 0xfb, 0xfe, 0xff };

static int alphabet(unsigned char *out)
{
	int n = 0;
	if (vf_param == 1) {
		for (int c = 1; c < 256; c++)
			out[n++] = c;
		return n;
	}
	/* every alphabet character of both alphabets, '=', and the neighbours of each
	 * range boundary of the decode table, plus bytes with special meaning */
	char seen[256] = { 0 };
	const char *lit = "ABCDEFGHIJKLMNOPQRSTUVWXYZabcdefghijklmnopqrstuvwxyz0123456789+/-_=. \n\t!*,:;<>?@[\\]^`{|}~";
	for (const char *p = lit; *p; p++)
		seen[(unsigned char)*p] = 1;
	seen[0x01] = seen[0x7f] = seen[0x80] = seen[0xff] = seen[0xab] = seen[0x2a] = seen[0x2c] = 1;
	for (int c = 1; c < 256; c++)
		if (seen[c])
			out[n++] = c;
	return n;
}

static void enumerate(void)
{
	unsigned char buf[8];
	vf_alloc_install();
	if (vf_param == 1)
		goto groups;   /* --param 1: only the full 255^4 group sweep (plain build) */

	/* 1. encode every byte string of length 0..3 */
	if (vf_case("encode: empty string, and all strings of length 1")) {
		chk_encode(buf, 0);
		for (int a = 0; a < 256; a++) {
			buf[0] = a;
			chk_encode(buf, 1);
		}
		flush_counts();
	}
	for (int a = 0; a < 256; a++) {
		if (!vf_case("encode: all strings of length 2 and 3 starting with byte %02x", a))
			continue;
		buf[0] = a;
		for (int b = 0; b < 256; b++) {
			buf[1] = b;
			chk_encode(buf, 2);
			for (int c = 0; c < 256; c++) {
				buf[2] = c;
				chk_encode(buf, 3);
			}
		}
		flush_counts();
	}
	/* 2. lengths 4..6 over 12 byte classes */
	for (int len = 4; len <= 6; len++)
		for (int a = 0; a < 12; a++) {
			if (!vf_case("encode: length %d over 12 byte classes, first %02x", len, classes12[a]))
				continue;
			int idx[6] = { a, 0, 0, 0, 0, 0 };
			for (;;) {
				for (int i = 0; i < len; i++)
					buf[i] = classes12[idx[i]];
				chk_encode(buf, len);
				int p = len - 1;
				while (p >= 1 && ++idx[p] == 12)
					idx[p--] = 0;
				if (p < 1)
					break;
			}
			flush_counts();
		}
	/* 3. decode all strings of length 1..3 over bytes 1..255 */
	for (int a = 1; a < 256; a++) {
		if (!vf_case("decode: all strings of length 1..3 starting with byte %02x", a))
			continue;
		char s[5] = { 0 };
		s[0] = a;
		chk_decode(s, 1);
		for (int b = 1; b < 256; b++) {
			s[1] = b;
			s[2] = 0;
			chk_decode(s, 2);
			for (int c = 1; c < 256; c++) {
				s[2] = c;
				chk_decode(s, 3);
			}
		}
		flush_counts();
	}
	/* 4. all four-character groups over the selected alphabet */
groups:;
	unsigned char abc[256];
	int na = alphabet(abc);
	vf_note("4-char group alphabet size %d (%s)", na, vf_param == 1 ? "all bytes 1..255" : "both alphabets, '=', range neighbours");
	for (int i = 0; i < na; i++)
		for (int j = 0; j < na; j++) {
			if (!vf_case("decode: all 4-char groups starting %02x %02x over %d-char alphabet", abc[i], abc[j], na))
				continue;
			char s[5] = { (char)abc[i], (char)abc[j], 0, 0, 0 };
			for (int k = 0; k < na; k++) {
				s[2] = abc[k];
				for (int l = 0; l < na; l++) {
					s[3] = abc[l];
					chk_decode(s, 4);
				}
			}
			flush_counts();
		}
	if (vf_param == 1)
		return;
	/* 5. multi-group strings over group classes: state carry and stop-at-'=' */
	{
		static const char *valid[] = { "QUJD", "-_-_", "+/+/", "AAAA", "____" };
		/* foreign bytes, among them high-bit bytes whose low seven bits are a symbol of one of the alphabets (A, _, -, +, /, =) */
		static const char foreign[] = { '!', '.', ' ', (char)0x80, '=', (char)0xC1, (char)0xDF, (char)0xAD, (char)0xAB, (char)0xAF, (char)0xBD, (char)0xFF };
		char groups[80][5];
		int ng = 0;
		for (unsigned v = 0; v < 5; v++)
			strcpy(groups[ng++], valid[v]);
		for (int pos = 0; pos < 4; pos++)
			for (unsigned f = 0; f < sizeof foreign; f++) {
				strcpy(groups[ng], "QUJD");
				groups[ng][pos] = foreign[f];
				ng++;
			}
		static const char *tails[] = { "", "Q", "QU", "QUJ", "Q=", "QU=", "QUJ=", "QU==", "=", "==", "!", "Q!", "QU!" };
		for (int a = 0; a < ng; a++) {
			if (!vf_case("decode: group '%s' x all second/third groups x tails", vf_esc(groups[a])))
				continue;
			for (int b = 0; b < ng; b++)
				for (int c = -1; c < ng; c++)
					for (unsigned t = 0; t < sizeof tails / sizeof *tails; t++) {
						char s[32];
						snprintf(s, sizeof s, "%s%s%s%s", groups[a], groups[b], c < 0 ? "" : groups[c], tails[t]);
						chk_decode(s, strlen(s));
					}
			flush_counts();
		}
	}
	/* 6. buffer arithmetic: one string per length (ASan build) */
	{
		int maxlen = 66000;
		for (int len = 0; len <= maxlen; len++) {
			int take = vf_thorough ? 1 : (len <= 2100 || (len >= 4090 && len <= 4102) || (len >= 65530 && len <= 65542) ||
						      (len >= 16380 && len <= 16388));
			if (!take)
				continue;
			if (!vf_case("length sweep: encode %d bytes, decode %d chars", len, len))
				continue;
			unsigned char *x = malloc(len + 1);
			for (int i = 0; i < len; i++)
				x[i] = (unsigned char)(i * 131 + len);
			chk_encode(x, len);
			char *s = malloc(len + 1);
			for (int i = 0; i < len; i++)
				s[i] = ref_b64_abc[(i * 7 + len) & 63];
			s[len] = 0;
			chk_decode(s, len);
			if (len > 8) {
				s[len - 3] = '=';   /* padding inside the last group */
				chk_decode(s, len);
				s[len / 2] = '!';   /* foreign byte in the middle */
				chk_decode(s, len);
				/* a high-bit byte that aliases a symbol, at each offset inside a group well before the end */
				for (int off = 0; off < 8 && len > 24; off++) {
					s[len / 2] = ref_b64_abc[len & 63];
					char keep = s[8 + off];
					s[8 + off] = (char)0xC1;
					chk_decode(s, len);
					s[8 + off] = keep;
				}
			}
			free(s);
			free(x);
			flush_counts();
		}
	}
	/* 7. through the public API: the k member of an oct JWK */
	{
		static const char *ks[] = { "QUJD", "QUJDRA", "QUJDREU", "QUJDR", "QUJD!A", "QU=JD", "QUJD=!", "-_-_", "+/+/",
					    "QUJD RA", "QUJDRA==", "QUJDREU=", "Q", "====", "QUJDREVG", ".QUJ", "QUJ." };
		for (unsigned i = 0; i < sizeof ks / sizeof *ks; i++) {
			if (!vf_case("public API: oct JWK with k='%s'", vf_esc(ks[i])))
				continue;
			char doc[128];
			snprintf(doc, sizeof doc, "{\"kty\":\"oct\",\"k\":\"%s\"}", ks[i]);
			jwk_set_t *set = jwks_create(doc);
			const jwk_item_t *it = set ? jwks_item_get(set, 0) : NULL;
			size_t n = strlen(ks[i]);
			int must = ref_b64_must_reject(ks[i], n);
			n_eval++;
			if (!it)
				vf_violation("jwk-noitem", "no item for an oct JWK");
			else if (!jwks_item_error(it)) {
				const unsigned char *kb = NULL;
				size_t kl = 0;
				unsigned char ref[64];
				long rl = ref_b64_decode_prefix(ks[i], n, ref);
				n_accept++;
				if (must)
					vf_violation(must == 1 ? "accepts-foreign" : "accepts-len1mod4", "oct key imported from k='%s'", ks[i]);
				else if (jwks_item_key_oct(it, &kb, &kl) || (long)kl != rl || memcmp(kb, ref, rl))
					vf_violation("decode-differs", "oct key bytes differ from reference decoding of k='%s'", ks[i]);
				n_nontriv++;
			} else
				n_reject++;
			jwks_free(set);
			if (vf_alloc_live() != 0)
				vf_violation("leak", "live blocks after free: %ld", vf_alloc_live());
			flush_counts();
		}
	}
	/* 8. through the public API: the signature segment of an HS256 token, which is compared as text rather than decoded.
	 * Whatever is appended to the valid MAC text -- alphabet characters, foreign bytes, high-bit bytes; 1 .. 1024 of
	 * them, the multiples of 256 included -- the token is refused */
	{
		unsigned char key[32], mac[64];
		unsigned int ml = 0;
		char ktxt[64], doc[160], htxt[64], ptxt[64], mtxt[96], input[160];
		for (int i = 0; i < 32; i++)
			key[i] = (unsigned char)(i * 7 + 3);
		ref_b64_encode(key, 32, ktxt);
		snprintf(doc, sizeof doc, "{\"kty\":\"oct\",\"k\":\"%s\"}", ktxt);
		ref_b64_encode((const unsigned char *)"{\"alg\":\"HS256\"}", 15, htxt);
		ref_b64_encode((const unsigned char *)"{\"sub\":\"x\"}", 11, ptxt);
		snprintf(input, sizeof input, "%s.%s", htxt, ptxt);
		HMAC(EVP_sha256(), key, 32, (const unsigned char *)input, strlen(input), mac, &ml);
		ref_b64_encode(mac, ml, mtxt);
		static const int lens[] = { 0, 1, 2, 3, 4, 43, 255, 256, 257, 511, 512, 513, 768, 1024, 65535, 65536, 65537 };
		static const unsigned char fills[] = { 'A', '-', '!', '=', ' ', 0x7f, 0x80, 0xc1, 0xff };
		for (unsigned f = 0; f < sizeof fills; f++) {
			if (!vf_case("public API: HS256 token whose signature text is followed by 0..1024 bytes %#04x", fills[f]))
				continue;
			jwk_set_t *set = jwks_create(doc);
			jwt_checker_t *c = jwt_checker_new();
			jwt_checker_setkey(c, JWT_ALG_HS256, jwks_item_get(set, 0));
			for (unsigned k = 0; k < sizeof lens / sizeof *lens; k++) {
				char *tok = malloc(strlen(input) + strlen(mtxt) + lens[k] + 4);
				int o = sprintf(tok, "%s.%s", input, mtxt);
				memset(tok + o, fills[f], lens[k]);
				tok[o + lens[k]] = 0;
				int r = jwt_checker_verify(c, tok);
				n_eval++;
				if (lens[k] == 0) {
					if (r)
						vf_violation("valid-token-rejected", "the reference HS256 token is rejected: %s", jwt_checker_error_msg(c));
					else
						n_nontriv++;
				} else if (r == 0) {
					n_accept++;
					vf_violation("accepts-foreign", "HS256 token accepted with %d byte(s) %#04x after its signature text", lens[k], fills[f]);
				} else
					n_reject++;
				free(tok);
			}
			jwt_checker_free(c);
			jwks_free(set);
			flush_counts();
		}
	}
}

int main(int argc, char **argv)
{
	return vf_main(argc, argv, enumerate);
}
