#!/usr/bin/env python3
"""C20 -- command-line tools: process-level exhaustive enumeration.

Speaks the same protocol as the C harnesses (engine/vf.c): --tier, --prop, --shard i/n, --out FILE,
--replay IDX, --list, --merge-count.  Cases are enumerated in a fixed order; each case runs the tools
built from /repo/tools (path in $VERIF_TOOLS) as child processes.
"""
import base64, hashlib, itertools, json, os, shutil, struct, subprocess, sys, tempfile, time

VERIF = os.environ.get("VERIF_DIR", "/verif")
TOOLS = os.environ.get("VERIF_TOOLS", "")
KEYS = os.path.join(VERIF, "keys")


def b64u(b):
    return base64.urlsafe_b64encode(b).rstrip(b"=").decode()


def b64d(s):
    return base64.urlsafe_b64decode(s + "=" * (-len(s) % 4))


def h64(s):
    return struct.unpack("<Q", hashlib.sha256(s.encode() if isinstance(s, str) else s).digest()[:8])[0]


class Ctx:
    def __init__(self):
        self.idx = -1
        self.shard = (0, 1)
        self.replay = None
        self.listing = False
        self.out = None
        self.tier = "quick"
        self.viol = 0
        self.executed = 0
        self.outcomes = set()
        self.nontriv = set()
        self.samples = []
        self.counters = {}
        self.cur_desc = ""
        self.cur_out = 0
        self.deadline = 0
        self.deadline_hit = 0
        self.tmp = None

    def emit(self, obj):
        line = json.dumps(obj) + "\n"
        if self.out:
            with open(self.out, "a") as f:
                f.write(line)
        else:
            sys.stdout.write(line)

    def finalize(self):
        if self.cur_desc is None:
            return
        self.outcomes.add(self.cur_out)
        self.executed += 1
        if len(self.samples) < 3 or (len(self.samples) < 12 and self.idx % 97 == 13):
            self.samples.append({"idx": self.idx, "outcome": "%016x" % self.cur_out, "desc": self.cur_desc})
        if self.replay is not None:
            self.emit({"type": "replayed", "idx": self.idx, "desc": self.cur_desc, "outcome": "%016x" % self.cur_out})
        self.cur_desc = None

    def case(self, desc):
        if getattr(self, "_active", False):
            self.finalize()
            self._active = False
        self.idx += 1
        if self.listing:
            print("%d\t%s" % (self.idx, desc))
            return False
        if self.replay is not None:
            if self.idx != self.replay:
                return False
        else:
            if self.idx % self.shard[1] != self.shard[0]:
                return False
            if self.deadline and time.time() > self.deadline:
                self.deadline_hit = 1
                return False
        self.cur_desc = desc
        self.cur_out = 0xcbf29ce484222325
        self._active = True
        return True

    def obs(self, v):
        self.cur_out = h64("%x|%s" % (self.cur_out, v))

    def nontrivial(self):
        self.nontriv.add(h64(self.cur_desc))

    def violation(self, key, detail):
        self.viol += 1
        self.emit({"type": "violation", "idx": self.idx, "key": key, "desc": self.cur_desc, "detail": detail[:2500]})

    def count(self, name, n=1):
        self.counters[name] = self.counters.get(name, 0) + n


C = Ctx()


def run(args, stdin=None, timeout=120, nofile=None):
    C.count("evaluations")
    pre = None
    if nofile:
        import resource

        def pre():
            resource.setrlimit(resource.RLIMIT_NOFILE, (nofile, nofile))
    try:
        r = subprocess.run(args, input=stdin, capture_output=True, timeout=timeout, preexec_fn=pre)
        return r.returncode, r.stdout, r.stderr
    except subprocess.TimeoutExpired:
        return -999, b"", b"timeout"


def tool(name):
    return os.path.join(TOOLS, name)


# ---------------------------------------------------------------- fixtures
def fixtures(tmp):
    fx = {}
    oct_key = bytes((i * 37 + 11) & 0xff for i in range(32))
    fx["oct_alg"] = os.path.join(tmp, "oct_alg.json")
    json.dump({"kty": "oct", "k": b64u(oct_key), "alg": "HS256"}, open(fx["oct_alg"], "w"))
    fx["oct_noalg"] = os.path.join(tmp, "oct_noalg.json")
    json.dump({"kty": "oct", "k": b64u(oct_key)}, open(fx["oct_noalg"], "w"))
    for nm, key, alg in (("ec", "p256a", "ES256"), ("rsa", "rsa2048a", "RS256"), ("ed", "ed25519a", "EdDSA")):
        for form in ("priv", "pub"):
            j = json.load(open(os.path.join(KEYS, "%s.%s.jwk" % (key, form))))
            p = os.path.join(tmp, "%s_%s_noalg.json" % (nm, form))
            json.dump(j, open(p, "w"))
            fx["%s_%s_noalg" % (nm, form)] = p
            j["alg"] = alg
            p = os.path.join(tmp, "%s_%s_alg.json" % (nm, form))
            json.dump(j, open(p, "w"))
            fx["%s_%s_alg" % (nm, form)] = p
    # good and bad tokens for the exit-status lists (HS256, key with alg)
    good = []
    for i in range(4):
        rc, out, err = run([tool("jwt-generate"), "-q", "-k", fx["oct_alg"], "-c", "i:n=%d" % i])
        if rc != 0:
            raise SystemExit("cli: jwt-generate failed in fixtures: %r" % err)
        good.append(out.decode().strip())
    bad = []
    for g in good:
        h, p, s = g.split(".")
        bad.append("%s.%s.%s" % (h, p, ("A" if s[0] != "A" else "B") + s[1:]))
    # the signature with the case of its first letter flipped (a different MAC, the same text to a case-blind comparison)
    h, p, sg = good[0].split(".")
    for i, ch in enumerate(sg):
        if ch.isalpha():
            bad.append("%s.%s.%s" % (h, p, sg[:i] + ch.swapcase() + sg[i + 1:]))
            break
    bad.append("not-a-token")
    bad.append(good[0].rsplit(".", 1)[0] + ".")
    fx["good"], fx["bad"] = good, bad
    # correctly signed tokens that fail on their claims: expired, not valid yet, both
    fx["bad_claims"] = {}
    for cause, claims in (("expired", ["i:exp=1000"]), ("not-yet-valid", ["i:nbf=4000000000"]), ("expired-and-not-yet-valid", ["i:exp=1000", "i:nbf=4000000000"])):
        args = [tool("jwt-generate"), "-q", "-k", fx["oct_alg"]]
        for c in claims:
            args += ["-c", c]
        rc, out, err = run(args)
        if rc != 0:
            raise SystemExit("cli: jwt-generate failed in fixtures: %r" % err)
        fx["bad_claims"][cause] = out.decode().strip()
    return fx


# ---------------------------------------------------------------- part 1: exit status of jwt-verify
def verify_list(fx, tokens, via_stdin, final_newline=True):
    base = [tool("jwt-verify"), "-q", "-k", fx["oct_alg"]]
    if via_stdin:
        rc, out, err = run(base + ["-"], stdin=("\n".join(tokens) + ("\n" if final_newline else "")).encode())
    else:
        rc, out, err = run(base + tokens)
    return rc


def part_exit_status(fx):
    good, bad = fx["good"], fx["bad"]
    # sanity: each single token behaves as labelled
    if C.case("single tokens: every good token exits 0, every bad token exits non-zero (arguments and stdin)"):
        for t in good:
            for via in (False, True):
                rc = verify_list(fx, [t], via)
                C.obs(rc == 0)
                if rc != 0:
                    C.violation("exit-status|good-token-nonzero", "a valid token gave exit status %d (%s)" % (rc, "stdin" if via else "argv"))
        for t in bad:
            for via in (False, True):
                rc = verify_list(fx, [t], via)
                C.obs(rc == 0)
                if rc == 0:
                    C.violation("exit-status|bad-token-zero", "an invalid token gave exit status 0 (%s): %s" % ("stdin" if via else "argv", t[:80]))
        C.nontrivial()
    # every composition of every length 1..8
    maxlen = 10 if C.tier == "thorough" else 6
    for n in range(1, maxlen + 1):
        for via in (False, True):
            if not C.case("jwt-verify with every good/bad composition of %d tokens (%s)" % (n, "stdin" if via else "arguments")):
                continue
            for comp in itertools.product((0, 1), repeat=n):
                toks = [(good[i % len(good)] if g else bad[i % len(bad)]) for i, g in enumerate(comp)]
                rc = verify_list(fx, toks, via)
                allgood = all(comp)
                C.obs((rc == 0, allgood))
                if (rc == 0) != allgood:
                    C.violation("exit-status|%s" % ("zero-despite-failures" if rc == 0 else "nonzero-despite-all-good"),
                                "composition %s (1=good) via %s: exit status %d" % ("".join(map(str, comp)), "stdin" if via else "argv", rc))
            C.nontrivial()
    # standard input whose last line has no newline, and input with CRLF line ends
    for n in (1, 2, 3):
        if not C.case("jwt-verify with every good/bad composition of %d tokens on standard input, last line unterminated" % n):
            continue
        for comp in itertools.product((0, 1), repeat=n):
            toks = [(good[i % len(good)] if g else bad[i % len(bad)]) for i, g in enumerate(comp)]
            rc = verify_list(fx, toks, True, final_newline=False)
            C.obs((rc == 0, all(comp)))
            if (rc == 0) != all(comp):
                C.violation("exit-status|unterminated-last-line|%s" % ("zero-despite-failures" if rc == 0 else "nonzero-despite-all-good"),
                            "composition %s (1=good) on stdin without a final newline: exit status %d" % ("".join(map(str, comp)), rc))
        C.nontrivial()
    # empty tokens (a blank line on standard input, an empty argument) between real ones: whatever the tool makes of the empty
    # token itself, a failing token anywhere in the list still makes the exit status non-zero
    for n in (2, 3, 4):
        for via in (False, True):
            if not C.case("jwt-verify with every good/bad/empty composition of %d tokens (%s)" % (n, "stdin" if via else "arguments")):
                continue
            for comp in itertools.product((0, 1, 2), repeat=n):
                if 2 not in comp:
                    continue
                toks = ["" if g == 2 else (good[i % len(good)] if g else bad[i % len(bad)]) for i, g in enumerate(comp)]
                rc = verify_list(fx, toks, via)
                C.obs((rc == 0, 0 in comp))
                if 0 in comp and rc == 0:
                    C.violation("exit-status|zero-despite-failures|empty-token-in-list",
                                "composition %s (1=good, 0=bad, 2=empty) via %s: exit status 0 although a supplied token fails" % ("".join(map(str, comp)), "stdin" if via else "argv"))
            C.nontrivial()
    # options given after or between the tokens (the tools use getopt_long's argument permutation): the verdict is that of the same
    # tokens with the options in front
    for comp in ((1,), (0,), (1, 1), (1, 0), (0, 1), (1, 1, 1), (1, 0, 1)):
        for where in ("last", "between", "split"):
            if where == "between" and len(comp) < 2:
                continue
            if not C.case("jwt-verify with options %s the tokens, composition %s" % (where, "".join(map(str, comp)))):
                continue
            toks = [(good[i % len(good)] if g else bad[i % len(bad)]) for i, g in enumerate(comp)]
            for spelling in (0, 1):
                opts = spell(VER_OPTS["quiet"], spelling) + spell(VER_OPTS["key"], spelling, fx["oct_alg"], eq=bool(spelling))
                if where == "last":
                    argv = toks + opts
                elif where == "between":
                    argv = toks[:1] + opts + toks[1:]
                else:
                    argv = opts[:1] + toks + opts[1:]
                rc, out, err = run([tool("jwt-verify")] + argv)
                C.obs((rc == 0, all(comp)))
                if (rc == 0) != all(comp):
                    C.violation("exit-status|options-after-tokens|%s" % ("zero-despite-failures" if rc == 0 else "nonzero-despite-all-good"),
                                "jwt-verify %s (1=good token): exit status %d" % (" ".join("<%d>" % comp[toks.index(a)] if a in toks else a for a in argv)[:200], rc))
            C.nontrivial()
    # long tokens (longer than the tools' line buffer), valid and invalid, alone and between ordinary ones
    for size in ((9000, 70000) if C.tier == "thorough" else (9000,)):
        rc, out, err = run([tool("jwt-generate"), "-q", "-k", fx["oct_alg"], "-c", "s:pad=" + "p" * size])
        longgood = out.decode().strip()
        if rc != 0 or longgood.count(".") != 2:
            if C.case("long token of about %d characters can be generated" % size):
                C.violation("exit-status|long-token-not-generated", "jwt-generate failed for a %d-character claim: %s" % (size, err.decode(errors="replace")[-200:]))
            continue
        longbad = longgood[:-2] + ("AA" if not longgood.endswith("AA") else "BB")
        for via in (False, True):
            for shape, toks in (("long valid token alone", [longgood]), ("long invalid token alone", [longbad]), ("good, long valid, good", [good[0], longgood, good[1]]),
                                ("good, long invalid, good", [good[0], longbad, good[1]]), ("long valid then bad", [longgood, bad[0]])):
                if not C.case("jwt-verify with a token of %d characters: %s (%s)" % (len(longgood), shape, "stdin" if via else "arguments")):
                    continue
                rc = verify_list(fx, toks, via)
                allgood = all(t in good or t == longgood for t in toks)
                C.obs((rc == 0, allgood))
                if (rc == 0) != allgood:
                    C.violation("exit-status|long-token|%s|%s" % ("zero-despite-failures" if rc == 0 else "nonzero-despite-all-good", "stdin" if via else "argv"),
                                "%s via %s: exit status %d" % (shape, "stdin" if via else "argv", rc))
                C.nontrivial()
    # tokens that fail for different reasons (signature, shape, expiry, not-before): each failure counts as a failure whatever its cause, alone,
    # in runs of every length the status arithmetic could trip over, and mixed with a run of tokens failing for another reason
    causes = dict(fx["bad_claims"])
    causes["bad-signature"] = bad[0]
    causes["not-a-token"] = "not-a-token"
    runs = list(range(1, 10)) + [15, 16, 17, 31, 32, 33, 63, 64, 65, 127, 128, 129, 255, 256, 257, 512]
    for cause in sorted(causes):
        for via in (False, True):
            if not C.case("jwt-verify with runs of 1..512 tokens all failing as %s (%s)" % (cause, "stdin" if via else "arguments")):
                continue
            for n in runs:
                rc = verify_list(fx, [causes[cause]] * n, via)
                C.obs((rc == 0, n < 10))
                if rc == 0:
                    C.violation("exit-status|zero-despite-failures|cause-%s" % cause, "%d token(s) failing as %s via %s: exit status 0" % (n, cause, "stdin" if via else "argv"))
            C.nontrivial()
    maxb = 64 if C.tier == "thorough" else 33
    for c1 in sorted(fx["bad_claims"]):
        for c2 in ("bad-signature", "not-a-token") + tuple(k for k in sorted(fx["bad_claims"]) if k > c1):
            for via in (False, True):
                if not C.case("jwt-verify with 1..4 tokens failing as %s followed by 0..%d failing as %s (%s)" % (c1, maxb, c2, "stdin" if via else "arguments")):
                    continue
                for a in range(1, 5):
                    for b in range(0, maxb + 1):
                        toks = [causes[c1]] * a + [causes[c2]] * b
                        if b % 2:
                            toks.reverse()
                        rc = verify_list(fx, toks, via)
                        C.obs((rc == 0, a, b > 0))
                        if rc == 0:
                            C.violation("exit-status|zero-despite-failures|mixed-causes", "%d token(s) failing as %s and %d failing as %s via %s: exit status 0" %
                                        (a, c1, b, c2, "stdin" if via else "argv"))
                C.nontrivial()
    # a good token between them changes nothing
    if C.case("jwt-verify with good tokens around one token failing on its claims"):
        for cause in sorted(fx["bad_claims"]):
            for via in (False, True):
                for toks in ([good[0], causes[cause]], [causes[cause], good[0]], [good[0], causes[cause], good[1]]):
                    rc = verify_list(fx, toks, via)
                    C.obs(rc == 0)
                    if rc == 0:
                        C.violation("exit-status|zero-despite-failures|cause-%s" % cause, "good tokens and one failing as %s via %s: exit status 0" % (cause, "stdin" if via else "argv"))
        C.nontrivial()
    # the remaining documented options of jwt-verify, --verbose and --print=CMD (each token's header and payload piped through CMD), in both
    # spellings, with lists long enough that a descriptor or child process kept per token runs into the limit (64 descriptors here)
    for spelling in (0, 1):
        for n in (1, 2, 40) if C.tier == "quick" else (1, 2, 3, 40, 100):
            for via in (False, True):
                if not C.case("jwt-verify %s %s with %d valid tokens (%s), at most 64 open descriptors" %
                              ("--verbose" if spelling else "-v", "--print=CMD" if spelling else "-p CMD", n, "stdin" if via else "arguments")):
                    continue
                opts = (["--verbose", "--print=cat >/dev/null"] if spelling else ["-v", "-p", "cat >/dev/null"]) + ["-k", fx["oct_alg"]]
                toks = [good[i % len(good)] for i in range(n)]
                if via:
                    rc, out, err = run([tool("jwt-verify")] + opts + ["-"], stdin=("\n".join(toks) + "\n").encode(), nofile=64)
                else:
                    rc, out, err = run([tool("jwt-verify")] + opts + toks, nofile=64)
                C.obs((rc == 0, n))
                if rc != 0:
                    C.violation("exit-status|nonzero-despite-all-good|verbose-print", "%d valid tokens with %s: exit status %d: %s" %
                                (n, " ".join(opts[:-2]), rc, (err or out).decode(errors="replace")[-200:]))
                # ... and one bad token among them still counts
                toks2 = toks + [bad[0]]
                rc, out, err = run([tool("jwt-verify")] + opts + toks2, nofile=64)
                C.obs((rc == 0, n, "bad"))
                if rc == 0:
                    C.violation("exit-status|zero-despite-failures|verbose-print", "%d valid tokens and a bad one with %s: exit status 0" % (n, " ".join(opts[:-2])))
                C.nontrivial()
    # long lists
    lengths = [254, 255, 256, 257, 258, 511, 512, 513, 1024] if C.tier == "thorough" else [255, 256, 257, 512]
    for n in lengths:
        for via in (False, True):
            for shape in ("all-bad", "all-good", "one-bad-first", "one-bad-middle", "one-bad-last", "one-good-last"):
                if not C.case("jwt-verify with %d tokens, %s (%s)" % (n, shape, "stdin" if via else "arguments")):
                    continue
                comp = [1] * n
                if shape == "all-bad":
                    comp = [0] * n
                elif shape == "one-bad-first":
                    comp[0] = 0
                elif shape == "one-bad-middle":
                    comp[n // 2] = 0
                elif shape == "one-bad-last":
                    comp[-1] = 0
                elif shape == "one-good-last":
                    comp = [0] * n
                    comp[-1] = 1
                toks = [(good[i % len(good)] if g else bad[i % len(bad)]) for i, g in enumerate(comp)]
                rc = verify_list(fx, toks, via)
                allgood = all(comp)
                C.obs((rc == 0, allgood))
                if (rc == 0) != allgood:
                    C.violation("exit-status|%s" % ("zero-despite-failures" if rc == 0 else "nonzero-despite-all-good"),
                                "%d tokens, %s, via %s: exit status %d with %d failing token(s)" % (n, shape, "stdin" if via else "argv", rc, comp.count(0)))
                C.nontrivial()


# ---------------------------------------------------------------- part 2: option spellings
GEN_OPTS = {"key": ("-k", "--key"), "alg": ("-a", "--algorithm"), "claim": ("-c", "--claim"), "json": ("-j", "--json"), "quiet": ("-q", "--quiet"),
            "noiat": ("-n", "--no-iat")}
VER_OPTS = {"key": ("-k", "--key"), "alg": ("-a", "--algorithm"), "quiet": ("-q", "--quiet")}


def spell(opt, long_form, value=None, eq=False):
    if value is None:
        return [opt[1] if long_form else opt[0]]
    if long_form:
        return [opt[1] + "=" + value] if eq else [opt[1], value]
    return [opt[0] + value] if eq else [opt[0], value]


def part_options(fx):
    keysets = [("oct_alg", "oct_alg", None), ("oct_noalg", "oct_noalg", "HS256"), ("ec_priv_alg", "ec_pub_alg", None), ("ec_priv_noalg", "ec_pub_noalg", "ES256"),
               ("rsa_priv_noalg", "rsa_pub_noalg", "RS256"), ("ed_priv_alg", "ed_pub_alg", None), ("rsa_priv_noalg", "rsa_pub_noalg", "PS256")]
    for gk, vk, alg in keysets:
        gen_dims = ["key", "quiet", "claim", "json", "noiat"] + (["alg"] if alg else [])
        ver_dims = ["key", "quiet"] + (["alg"] if alg else [])
        for gbits in itertools.product((0, 1), repeat=len(gen_dims)):
            if not C.case("generate with %s (alg option %s), spellings %s, then verify with every spelling of its options" %
                          (gk, alg or "none", "".join("L" if b else "s" for b in gbits))):
                continue
            g = dict(zip(gen_dims, gbits))
            args = [tool("jwt-generate")]
            args += spell(GEN_OPTS["quiet"], g["quiet"])
            args += spell(GEN_OPTS["key"], g["key"], fx[gk], eq=g["key"] and g["claim"])
            if alg:
                args += spell(GEN_OPTS["alg"], g["alg"], alg, eq=bool(g["json"]))
            args += spell(GEN_OPTS["claim"], g["claim"], "s:sub=alice")
            args += spell(GEN_OPTS["claim"], 1 - g["claim"], "i:lvl=7")
            args += spell(GEN_OPTS["json"], g["json"], '{"roles":["a","b"]}')
            args += spell(GEN_OPTS["noiat"], g["noiat"])
            rc, out, err = run(args)
            tok = out.decode().strip().splitlines()[-1] if out.strip() else ""
            C.obs(rc == 0)
            if rc != 0 or tok.count(".") != 2:
                C.violation("options|jwt-generate-fails", "%s -> exit %d, stderr %s" % (" ".join(args[1:]), rc, err.decode(errors="replace")[-300:]))
                continue
            # payload must carry what was asked for
            try:
                payload = json.loads(b64d(tok.split(".")[1]))
                want = {"sub": "alice", "lvl": 7, "roles": ["a", "b"]}
                if any(payload.get(k) != v for k, v in want.items()):
                    C.violation("options|claims-missing", "payload %s lacks the requested claims (%s)" % (payload, " ".join(args[1:])))
            except Exception as ex:
                C.violation("options|token-undecodable", "payload of %s does not decode: %s" % (tok[:80], ex))
            for vbits in itertools.product((0, 1), repeat=len(ver_dims)):
                v = dict(zip(ver_dims, vbits))
                for eq in (False, True):
                    vargs = [tool("jwt-verify")]
                    vargs += spell(VER_OPTS["quiet"], v["quiet"])
                    if alg:
                        vargs += spell(VER_OPTS["alg"], v["alg"], alg, eq=eq)
                    vargs += spell(VER_OPTS["key"], v["key"], fx[vk], eq=eq)
                    vargs.append(tok)
                    rc, out, err = run(vargs)
                    C.obs(rc == 0)
                    if rc != 0:
                        which = "short" if alg and not v["alg"] else "long"
                        C.violation("options|jwt-verify-rejects|%s" % ("algorithm-%s-spelling" % which if alg else "key-with-alg"),
                                    "jwt-generate token is not accepted: jwt-verify %s -> exit %d: %s %s" %
                                    (" ".join(vargs[1:-1]), rc, out.decode(errors="replace")[-200:], err.decode(errors="replace")[-200:]))
            C.nontrivial()
    # informational options in both spellings
    for t, opts in (("jwt-verify", [("-h", "--help"), ("-l", "--list")]), ("jwt-generate", [("-h", "--help"), ("-l", "--list")]),
                    ("key2jwk", [("-h", "--help"), ("-l", "--list")]), ("jwk2key", [("-h", "--help")])):
        for o in opts:
            if not C.case("%s %s and %s behave alike" % (t, o[0], o[1])):
                continue
            a = run([tool(t), o[0]])
            b = run([tool(t), o[1]])
            C.obs((a[0], b[0]))
            if a[0] != b[0] or a[1] != b[1] or a[0] != 0:
                C.violation("options|spellings-differ", "%s %s -> %d, %s -> %d" % (t, o[0], a[0], o[1], b[0]))
            C.nontrivial()
    # verbose and print in both spellings on a round trip
    for gv in (0, 1):
        for vv in (0, 1):
            for pp in (0, 1):
                if not C.case("verbose/print round trip: generate %s, verify %s %s" % (("-v", "--verbose")[gv], ("-v", "--verbose")[vv], ("-p", "--print")[pp])):
                    continue
                rc, out, err = run([tool("jwt-generate"), ("-v", "--verbose")[gv], ("-k", "--key")[gv], fx["oct_alg"], "-c", "s:sub=x"] + spell(("-p", "--print"), pp, "cat"))
                tok = out.decode().strip().splitlines()[-1] if out.strip() else ""
                if rc != 0 or tok.count(".") != 2:
                    C.violation("options|jwt-generate-fails", "verbose generate -> exit %d: %s" % (rc, err.decode(errors="replace")[-300:]))
                    continue
                rc, out, err = run([tool("jwt-verify"), ("-v", "--verbose")[vv], "-k", fx["oct_alg"]] + spell(("-p", "--print"), pp, "cat") + [tok])
                C.obs(rc == 0)
                if rc != 0:
                    C.violation("options|jwt-verify-rejects|verbose", "verbose verify of a verbose-generated token -> exit %d: %s" % (rc, out.decode(errors="replace")[-300:]))
                C.nontrivial()


# ---------------------------------------------------------------- part 2b: claim values
def c_strtol(text):
    """what strtol(text, NULL, 0) yields on a 64-bit long"""
    t = text.strip()
    neg = t.startswith("-")
    if t[:1] in "+-":
        t = t[1:]
    if t[:2].lower() == "0x":
        base, digits, t = 16, "0123456789abcdef", t[2:]
    elif t[:1] == "0":
        base, digits = 8, "01234567"
    else:
        base, digits = 10, "0123456789"
    n = 0
    for ch in t.lower():
        if ch not in digits:
            break
        n = n * base + digits.index(ch)
    n = -n if neg else n
    return max(-2**63, min(2**63 - 1, n))


INT_VALUES = ["0", "1", "-1", "7", "0x10", "010", "65536", "2147483647", "2147483648", "-2147483648", "-2147483649", "4294967295", "4294967296", "4102444800",
              "253402300799", "9007199254740993", "9223372036854775807", "-9223372036854775808"]
BOOL_VALUES = [("true", True), ("t", True), ("1", True), ("yes", True), ("false", False), ("f", False), ("F", False), ("0", False), ("False", False)]
STR_VALUES = ["x", "alice", "a b", "ünï", "p" * 300, "{\"a\":1}", "with\\back\"quote"]


def part_claims(fx):
    """every documented claim type and a ladder of values: the payload carries the value asked for and jwt-verify accepts the token"""
    def round_trip(label, gen_args, want, key="claim-values"):
        args = [tool("jwt-generate"), "-q", "-k", fx["oct_alg"]] + gen_args
        rc, out, err = run(args)
        tok = out.decode().strip().splitlines()[-1] if out.strip() else ""
        C.obs(rc == 0)
        if rc != 0 or tok.count(".") != 2:
            C.violation("%s|jwt-generate-fails" % key, "%s -> exit %d, stderr %s" % (" ".join(gen_args), rc, err.decode(errors="replace")[-300:]))
            return
        try:
            payload = json.loads(b64d(tok.split(".")[1]))
        except Exception as ex:
            C.violation("%s|token-undecodable" % key, "%s: payload does not decode: %s" % (" ".join(gen_args), ex))
            return
        for k, v in want.items():
            got = payload.get(k)
            if got != v or type(got) is not type(v):
                C.violation("%s|%s|payload-differs" % (key, label), "%s: claim %s is %r, asked for %r" % (" ".join(gen_args)[:200], k, got, v))
        for via in (False, True):
            vrc = verify_list(fx, [tok], via)
            C.obs(vrc == 0)
            if vrc != 0:
                C.violation("%s|%s|jwt-verify-rejects" % (key, label), "token generated with %s is rejected (%s): exit %d, payload %s" %
                            (" ".join(gen_args)[:200], "stdin" if via else "argv", vrc, str(payload)[:200]))

    now = int(time.time())
    for longform in (0, 1):
        for eq in (False, True):
            if longform == 0 and eq:
                continue
            sp = lambda val: spell(GEN_OPTS["claim"], longform, val, eq=eq)
            how = "--claim=" if eq else ("--claim" if longform else "-c")
            for v in INT_VALUES:
                if C.case("integer claim %s given with %s: neutral name" % (v, how)):
                    round_trip("integer", sp("i:lvl=" + v), {"lvl": c_strtol(v)})
                    C.nontrivial()
                n = c_strtol(v)
                # as a validity bound: a future exp, a past nbf -- the token is within its validity either way
                if n > now + 86400 and C.case("integer claim %s given with %s: as exp" % (v, how)):
                    round_trip("integer-exp", sp("i:exp=" + v), {"exp": n})
                    C.nontrivial()
                if n < now - 86400 and C.case("integer claim %s given with %s: as nbf" % (v, how)):
                    round_trip("integer-nbf", sp("i:nbf=" + v), {"nbf": n})
                    C.nontrivial()
            for v, b in BOOL_VALUES:
                if C.case("boolean claim %s given with %s" % (v, how)):
                    round_trip("boolean", sp("b:adm=" + v), {"adm": b})
                    C.nontrivial()
            for v in STR_VALUES:
                if C.case("string claim of %d characters (%s) given with %s" % (len(v), v[:12], how)):
                    round_trip("string", sp("s:sub=" + v), {"sub": v})
                    C.nontrivial()
    # the same values through -j/--json, alone and next to -c
    for longform in (0, 1):
        for v in INT_VALUES:
            n = c_strtol(v)
            if not C.case("integer %d inside %s, alone and beside -c" % (n, GEN_OPTS["json"][longform])):
                continue
            body = {"lvl": n}
            if n > now + 86400:
                body["exp"] = n
            if n < now - 86400:
                body["nbf"] = n
            round_trip("json", spell(GEN_OPTS["json"], longform, json.dumps(body), eq=bool(longform)), body)
            round_trip("json+claim", spell(GEN_OPTS["json"], longform, json.dumps(body)) + ["-c", "i:other=" + v, "-c", "s:sub=bob"],
                       dict(body, other=n, sub="bob"))
            C.nontrivial()


# ---------------------------------------------------------------- part 3: key2jwk / jwk2key
EC_WIDTH = {"P-256": 32, "P-384": 48, "P-521": 66, "secp256k1": 32}


def pem_fingerprint(pem_path, private):
    """canonical text of a key as libcrypto reads it"""
    args = ["openssl", "pkey", "-in", pem_path, "-text", "-noout"]
    if not private:
        args.insert(2, "-pubin")
    r = subprocess.run(args, capture_output=True)
    return r.returncode, r.stdout


def part_keys(fx, tmp):
    index = json.load(open(os.path.join(KEYS, "INDEX.json")))
    for meta in index:
        name = meta["name"]
        if name == "x25519":
            continue
        for form in ("priv", "pub"):
            if not C.case("key2jwk -> JWK -> jwk2key round trip for %s (%s)" % (name, form)):
                continue
            d = tempfile.mkdtemp(dir=tmp)
            pem = os.path.join(KEYS, "%s.%s.pem" % (name, form))
            out = os.path.join(d, "out.json")
            rc, so, se = run([tool("key2jwk"), "-q", "-k", "-o", out, pem])
            if rc != 0 or not os.path.exists(out):
                C.violation("key2jwk|fails", "%s %s: exit %d %s" % (name, form, rc, se.decode(errors="replace")[-300:]))
                continue
            try:
                doc = json.load(open(out))
                jwk = doc["keys"][0]
            except Exception as ex:
                C.violation("key2jwk|output-not-a-jwks", "%s %s: %s" % (name, form, ex))
                continue
            ref = json.load(open(os.path.join(KEYS, "%s.%s.jwk" % (name, form))))
            C.obs(jwk.get("kty"))
            # same key as the PEM, member by member (integers for RSA, exact fixed-width octets for EC/OKP)
            if jwk.get("kty") != ref["kty"]:
                C.violation("key2jwk|kty-differs", "%s %s: kty %s, expected %s" % (name, form, jwk.get("kty"), ref["kty"]))
            if ref["kty"] == "RSA":
                for m in ("n", "e", "d", "p", "q", "dp", "dq", "qi"):
                    if m in ref:
                        if m not in jwk or int.from_bytes(b64d(jwk[m]), "big") != int.from_bytes(b64d(ref[m]), "big"):
                            C.violation("key2jwk|rsa-member-differs", "%s %s: member %s differs from the PEM" % (name, form, m))
                if form == "pub" and any(m in jwk for m in ("d", "p", "q")):
                    C.violation("key2jwk|private-member-in-public-jwk", "%s pub" % name)
            elif ref["kty"] == "EC":
                w = EC_WIDTH[ref["crv"]]
                if jwk.get("crv") != ref["crv"]:
                    C.violation("key2jwk|crv-differs", "%s %s: crv %s, expected %s" % (name, form, jwk.get("crv"), ref["crv"]))
                for m in ("x", "y", "d"):
                    if m not in ref:
                        continue
                    got = b64d(jwk.get(m, ""))
                    want = b64d(ref[m])
                    if int.from_bytes(got, "big") != int.from_bytes(want, "big"):
                        C.violation("key2jwk|ec-member-differs", "%s %s: %s differs from the PEM" % (name, form, m))
                    elif len(got) != w:
                        C.violation("key2jwk|ec-member-not-fixed-width", "%s %s: %s has %d octets, RFC 7518 6.2.1 requires %d (value %s)" % (name, form, m, len(got), w, jwk.get(m)))
            else:
                need = "d" if form == "priv" else "x"
                if jwk.get("crv") != ref["crv"] or b64d(jwk.get(need, "")) != b64d(ref[need]):
                    C.violation("key2jwk|okp-member-differs", "%s %s: crv/%s differ from the PEM" % (name, form, need))
            # the library imports it without error and jwk2key writes back the identical key
            od = os.path.join(d, "o")
            os.mkdir(od)
            rc, so, se = run([tool("jwk2key"), "-d", od, out])
            files = sorted(os.listdir(od))
            C.obs(len(files))
            if rc != 0 or len(files) != 1:
                C.violation("jwk2key|no-key-written", "%s %s: exit %d, files %s, stderr %s" % (name, form, rc, files, se.decode(errors="replace")[-300:]))
                continue
            a = pem_fingerprint(os.path.join(od, files[0]), form == "priv")
            b = pem_fingerprint(pem, form == "priv")
            if a[0] != 0 or a[1] != b[1]:
                C.violation("jwk2key|key-differs", "%s %s: the key written back differs from the original" % (name, form))
            else:
                C.nontrivial()
            shutil.rmtree(d, ignore_errors=True)
    # EC key files written with the compressed point form (the same keys; leading-zero coordinates included)
    for meta in index:
        name = meta["name"]
        if meta.get("kty") != "EC":
            continue
        for form in ("priv", "pub"):
            if not C.case("key2jwk on %s (%s) re-written with the compressed point form" % (name, form)):
                continue
            d = tempfile.mkdtemp(dir=tmp)
            src = os.path.join(KEYS, "%s.%s.pem" % (name, form))
            cpem = os.path.join(d, "c.pem")
            args = ["openssl", "ec", "-in", src, "-conv_form", "compressed", "-out", cpem]
            if form == "pub":
                args[2:2] = ["-pubin", "-pubout"]
            r = subprocess.run(args, capture_output=True)
            if r.returncode != 0 or not os.path.exists(cpem):
                C.obs("openssl-cannot-convert")
                shutil.rmtree(d, ignore_errors=True)
                continue
            out = os.path.join(d, "out.json")
            rc, so, se = run([tool("key2jwk"), "-q", "-k", "-o", out, cpem])
            try:
                jwk = json.load(open(out))["keys"][0]
            except Exception as ex:
                C.violation("key2jwk|fails", "%s %s (compressed form): exit %d %s" % (name, form, rc, ex))
                shutil.rmtree(d, ignore_errors=True)
                continue
            ref = json.load(open(os.path.join(KEYS, "%s.%s.jwk" % (name, form))))
            w = EC_WIDTH[ref["crv"]]
            C.obs(jwk.get("crv"))
            for m in ("x", "y", "d"):
                if m not in ref:
                    continue
                got = b64d(jwk.get(m, ""))
                if int.from_bytes(got, "big") != int.from_bytes(b64d(ref[m]), "big"):
                    C.violation("key2jwk|ec-member-differs", "%s %s (compressed form): %s differs from the PEM" % (name, form, m))
                elif len(got) != w:
                    C.violation("key2jwk|ec-member-not-fixed-width", "%s %s (compressed form): %s has %d octets, RFC 7518 6.2.1 requires %d" % (name, form, m, len(got), w))
            C.nontrivial()
            shutil.rmtree(d, ignore_errors=True)
    # several key files in one key2jwk call (with generated kids), written back by one jwk2key call from a file and from stdin
    if C.case("key2jwk with six key files of every type at once (random kids), jwk2key from file and from standard input"):
        d = tempfile.mkdtemp(dir=tmp)
        names = ["rsa2048a", "p256_x0", "p521_d0", "ed25519a", "ed448", "k256"]
        out = os.path.join(d, "all.json")
        raw = bytes(range(1, 65))
        open(os.path.join(d, "h.bin"), "wb").write(raw)
        rc, so, se = run([tool("key2jwk"), "--quiet", "--output=" + out] + [os.path.join(KEYS, n + ".priv.pem") for n in names] + [os.path.join(d, "h.bin")])
        try:
            keys = json.load(open(out))["keys"]
        except Exception as ex:
            keys = []
            C.violation("key2jwk|fails", "multi-file call: exit %d %s" % (rc, ex))
        C.obs(len(keys))
        if keys and len(keys) != 7:
            C.violation("key2jwk|key-count", "7 files given, %d keys written" % len(keys))
        kids = [k.get("kid") for k in keys]
        if keys and (None in kids or len(set(kids)) != len(kids)):
            C.violation("key2jwk|kids", "generated kids are missing or not unique: %s" % kids)
        for via in ("file", "stdin"):
            od = os.path.join(d, "o_" + via)
            os.mkdir(od)
            if via == "file":
                rc, so, se = run([tool("jwk2key"), "--dir=" + od, out])
            else:
                rc, so, se = run([tool("jwk2key"), "-d", od, "-"], stdin=open(out, "rb").read())
            files = sorted(os.listdir(od))
            C.obs(len(files))
            if len(files) != len(keys):
                C.violation("jwk2key|file-count", "%d keys, %d files written via %s: %s" % (len(keys), len(files), via, se.decode(errors="replace")[-200:]))
            got = set()
            for f in files:
                pth = os.path.join(od, f)
                if f.endswith(".bin"):
                    if open(pth, "rb").read() != raw:
                        C.violation("jwk2key|key-differs", "oct key written back differs (multi-file, %s)" % via)
                    got.add("oct")
                else:
                    fp = pem_fingerprint(pth, True)[1]
                    for n in names:
                        if fp == pem_fingerprint(os.path.join(KEYS, n + ".priv.pem"), True)[1]:
                            got.add(n)
            if keys and got != set(names) | {"oct"}:
                C.violation("jwk2key|key-differs", "via %s only %s came back identical" % (via, sorted(got)))
        # the same JWK set given together with a file jwk2key cannot use (before it, after it): every key of the good file is still written back
        defects = {"truncated JSON": b'{"keys":[', "empty file": b"", "a number": b"5", "unknown kty": b'{"kty":"ZZ","kid":"z"}', "missing file": None}
        for dn in sorted(defects):
            for order in ("before", "after"):
                bad = os.path.join(d, "bad.json")
                if os.path.exists(bad):
                    os.unlink(bad)
                if defects[dn] is not None:
                    open(bad, "wb").write(defects[dn])
                od = os.path.join(d, "o_%s_%s" % (dn.replace(" ", "_"), order))
                os.mkdir(od)
                rc, so, se = run([tool("jwk2key"), "--dir=" + od] + ([bad, out] if order == "before" else [out, bad]))
                got = set()
                for f in sorted(os.listdir(od)):
                    pth = os.path.join(od, f)
                    if f.endswith(".bin"):
                        if open(pth, "rb").read() == raw:
                            got.add("oct")
                    else:
                        fp = pem_fingerprint(pth, True)[1]
                        for n in names:
                            if fp == pem_fingerprint(os.path.join(KEYS, n + ".priv.pem"), True)[1]:
                                got.add(n)
                C.obs((dn, order, len(got)))
                if keys and got != set(names) | {"oct"}:
                    C.violation("jwk2key|key-differs|next-to-an-unusable-file", "jwk2key given a file it cannot use (%s) %s the key set: only %s came back identical (exit %d)" %
                                (dn, order, sorted(got), rc))
        C.nontrivial()
        shutil.rmtree(d, ignore_errors=True)
    # every ordered pair (thorough: triple) of file kinds in one key2jwk call: each position yields what the file yields alone
    if True:
        d = tempfile.mkdtemp(dir=tmp)
        open(os.path.join(d, "h.bin"), "wb").write(bytes(range(3, 67)))
        kinds = [("rsa-priv", os.path.join(KEYS, "rsa2048a.priv.pem")), ("rsa-pub", os.path.join(KEYS, "rsa2048b.pub.pem")),
                 ("ec-priv", os.path.join(KEYS, "p256a.priv.pem")), ("ec-pub", os.path.join(KEYS, "p384.pub.pem")),
                 ("okp-priv", os.path.join(KEYS, "ed25519a.priv.pem")), ("okp-pub", os.path.join(KEYS, "ed448.pub.pem")), ("raw", os.path.join(d, "h.bin"))]

        def convert(files):
            out = os.path.join(d, "m.json")
            if os.path.exists(out):
                os.unlink(out)
            rc, so, se = run([tool("key2jwk"), "-q", "-o", out] + files)
            try:
                keys = json.load(open(out))["keys"]
            except Exception:
                return rc, None
            for k in keys:
                k.pop("kid", None)
            return rc, keys
        alone = {}
        for nm, f in kinds:
            rc, keys = convert([f])
            alone[nm] = keys[0] if keys and len(keys) == 1 else None
        for width in ((2, 3) if C.tier == "thorough" else (2,)):
            for combo in itertools.product(range(len(kinds)), repeat=width):
                label = " ".join(kinds[i][0] for i in combo)
                if not C.case("key2jwk with the files [%s] in this order: every position yields the key its file yields alone" % label):
                    continue
                rc, keys = convert([kinds[i][1] for i in combo])
                C.obs((rc, len(keys) if keys is not None else -1))
                if keys is None or len(keys) != width:
                    C.violation("key2jwk|multi-file|key-count", "[%s]: exit %d, %s keys written" % (label, rc, "no" if keys is None else len(keys)))
                    continue
                for pos, i in enumerate(combo):
                    if alone[kinds[i][0]] is None:
                        continue
                    if keys[pos] != alone[kinds[i][0]]:
                        C.violation("key2jwk|multi-file|key-differs|%s-after-%s" % (kinds[i][0], kinds[combo[pos - 1]][0] if pos else "nothing"),
                                    "[%s]: position %d is %s, the file alone gives %s" % (label, pos, json.dumps(keys[pos])[:160], json.dumps(alone[kinds[i][0]])[:160]))
                C.nontrivial()
        shutil.rmtree(d, ignore_errors=True)
    # oct keys whose octets look like text: trailing LF / CR / CRLF, embedded newlines, spaces, a trailing NUL
    tails = [(b"\n", "LF"), (b"\r", "CR"), (b"\r\n", "CRLF"), (b"\n\n", "LFLF"), (b" ", "space"), (b"\x00", "NUL"), (b"\t", "TAB")]
    for tail, nm in tails:
        for body in (bytes(range(65, 65 + 40)), b"0123456789abcdef" * 3 + b"\n" + b"x" * 20):
            if not C.case("key2jwk -> jwk2key round trip for an oct key of %d octets ending in %s" % (len(body) + len(tail), nm)):
                continue
            d = tempfile.mkdtemp(dir=tmp)
            raw = body + tail
            kf = os.path.join(d, "k.bin")
            open(kf, "wb").write(raw)
            out = os.path.join(d, "out.json")
            rc, so, se = run([tool("key2jwk"), "-q", "-k", "-o", out, kf])
            try:
                jwk = json.load(open(out))["keys"][0]
            except Exception as ex:
                C.violation("key2jwk|fails", "oct ending in %s: exit %d %s" % (nm, rc, ex))
                continue
            if jwk.get("kty") != "oct" or b64d(jwk.get("k", "")) != raw:
                C.violation("key2jwk|oct-differs", "oct ending in %s: k does not decode to the file content" % nm)
            od = os.path.join(d, "o")
            os.mkdir(od)
            rc, so, se = run([tool("jwk2key"), "-d", od, out])
            files = sorted(os.listdir(od))
            C.obs(len(files))
            if len(files) != 1 or open(os.path.join(od, files[0]), "rb").read() != raw:
                C.violation("jwk2key|key-differs|oct-tail-%s" % nm, "oct key ending in %s: the key written back differs (%d files)" % (nm, len(files)))
            else:
                C.nontrivial()
            shutil.rmtree(d, ignore_errors=True)
    # oct files of 32..512 bytes (below 32 bytes key2jwk does not guess HMAC)
    lens = range(32, 513) if C.tier == "thorough" else list(range(32, 72)) + [127, 128, 129, 255, 256, 257, 511, 512]
    for n in lens:
        if not C.case("key2jwk -> jwk2key round trip for an oct key file of %d bytes" % n):
            continue
        d = tempfile.mkdtemp(dir=tmp)
        raw = bytes(((i * 89 + n * 7 + 1) % 255) + 1 for i in range(n))   # no NUL, not PEM
        kf = os.path.join(d, "k.bin")
        open(kf, "wb").write(raw)
        out = os.path.join(d, "out.json")
        rc, so, se = run([tool("key2jwk"), "-q", "-k", "-o", out, kf])
        try:
            jwk = json.load(open(out))["keys"][0]
        except Exception as ex:
            C.violation("key2jwk|fails", "oct %d bytes: exit %d %s" % (n, rc, ex))
            continue
        if jwk.get("kty") != "oct" or b64d(jwk.get("k", "")) != raw or "=" in jwk.get("k", ""):
            C.violation("key2jwk|oct-differs", "oct %d bytes: k does not decode to the file content" % n)
        od = os.path.join(d, "o")
        os.mkdir(od)
        rc, so, se = run([tool("jwk2key"), "-d", od, out])
        files = sorted(os.listdir(od))
        C.obs(len(files))
        if len(files) != 1 or open(os.path.join(od, files[0]), "rb").read() != raw:
            C.violation("jwk2key|key-differs", "oct %d bytes: the key written back differs" % n)
        else:
            C.nontrivial()
        shutil.rmtree(d, ignore_errors=True)


def enumerate_all():
    tmp = tempfile.mkdtemp(prefix="cli-", dir=os.getcwd())
    C.tmp = tmp
    try:
        fx = fixtures(tmp)
        part_exit_status(fx)
        part_options(fx)
        part_claims(fx)
        part_keys(fx, tmp)
        if getattr(C, "_active", False):
            C.finalize()
            C._active = False
    finally:
        shutil.rmtree(tmp, ignore_errors=True)


def main():
    a = sys.argv[1:]
    i = 0
    while i < len(a):
        if a[i] == "--tier":
            C.tier = a[i + 1]; i += 1
        elif a[i] == "--prop":
            i += 1
        elif a[i] == "--shard":
            x, y = a[i + 1].split("/"); C.shard = (int(x), int(y)); i += 1
        elif a[i] == "--out":
            C.out = a[i + 1]; i += 1
        elif a[i] == "--replay":
            C.replay = int(a[i + 1]); i += 1
        elif a[i] == "--deadline":
            C.deadline = float(a[i + 1]); i += 1
        elif a[i] == "--case-timeout":
            i += 1
        elif a[i] == "--list":
            C.listing = True
        elif a[i] == "--merge-count":
            vals = set()
            for f in a[i + 1:]:
                d = open(f, "rb").read()
                vals.update(struct.unpack("<%dQ" % (len(d) // 8), d))
            print(len(vals), 0)
            return 0
        i += 1
    if not TOOLS or not os.path.exists(tool("jwt-verify")):
        sys.stderr.write("cli: $VERIF_TOOLS does not point at the built tools\n")
        return 2
    enumerate_all()
    if C.listing or C.replay is not None:
        return 0
    if C.out:
        for suffix, s in ((".oc.bin", C.outcomes), (".nt.bin", C.nontriv)):
            with open(C.out + suffix, "wb") as f:
                for v in s:
                    f.write(struct.pack("<Q", v or 1))
    C.emit({"type": "summary", "shard": C.shard[0], "nshards": C.shard[1], "cases_total": C.idx + 1, "executed": C.executed, "crashes": 0,
            "deadline_hit": C.deadline_hit, "deadline_idx": 0, "violations": C.viol, "outcomes_local": len(C.outcomes), "nontrivial_local": len(C.nontriv),
            "saturated": 0, "counters": C.counters, "samples": C.samples, "notes": []})
    return 0


if __name__ == "__main__":
    sys.exit(main())
