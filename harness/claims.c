/* C04 -- claim checks (exp, nbf, iss, sub, aud): explicit-state search over checker
 * configuration histories with a reference model advanced in lock-step, and in every
 * reachable state a probe battery of tokens x clocks evaluated on the real checker.
 * C19 -- callback programs over token-mutating calls (differential oracle).        */
#include "vf.h"
#include "keys.h"
#include "tok.h"
#include <stdint.h>
#include <limits.h>

/* ================================================================== model */
static const long EXPLEE[] = { -1, 0, 5, 1L << 40, -100 };
static const long NBFLEE[] = { -1, 0, 5, 1L << 40 };
#define NEXPL 5
#define NNBFL 4
#define NSTRV 4
static const char *STRV[] = { NULL, "a", "", "urn:iss\xc3\xa9r/long value" };   /* the empty string is an expectation like any other */
static const char *CNAME[] = { "iss", "sub", "aud" };
static const jwt_claims_t CTYPE[] = { JWT_CLAIM_ISS, JWT_CLAIM_SUB, JWT_CLAIM_AUD };

typedef struct {
	int exp_i, nbf_i, str[3];
	/* iss only: the last claim_set(ISS, ...) was refused (value not UTF-8).  What is then in force is either the earlier
	 * expectation (str[0], "nothing changed") or an expectation nothing satisfies (the pinned tree fails closed) --
	 * never no expectation at all when there was one before */
	int limbo;
} cst_t;

#define NSTATES (2 * NEXPL * NNBFL * NSTRV * NSTRV * NSTRV)
static int st_id(const cst_t *s) { return ((((s->exp_i * NNBFL + s->nbf_i) * NSTRV + s->str[0]) * NSTRV + s->str[1]) * NSTRV + s->str[2]) * 2 + s->limbo; }
static cst_t st_of(int id)
{
	cst_t s;
	s.limbo = id % 2; id /= 2;
	s.str[2] = id % NSTRV; id /= NSTRV;
	s.str[1] = id % NSTRV; id /= NSTRV;
	s.str[0] = id % NSTRV; id /= NSTRV;
	s.nbf_i = id % NNBFL; id /= NNBFL;
	s.exp_i = id;
	return s;
}

/* alphabet: per string claim NSTRV-1 set operations and one delete; then the leeways; then invalid calls */
#define PERCLAIM NSTRV                          /* set(v1..v3), del */
#define OP_EXPLEE (3 * PERCLAIM)
#define OP_NBFLEE (OP_EXPLEE + NEXPL)
#define OP_BAD_SET_EXP (OP_NBFLEE + NNBFL)
#define OP_BAD_LEE_ISS (OP_BAD_SET_EXP + 1)
#define OP_BAD_SET_NULL (OP_BAD_SET_EXP + 2)
#define OP_BAD_SET_IAT (OP_BAD_SET_EXP + 3)
#define OP_BAD_DEL_EXP (OP_BAD_SET_EXP + 4)
#define OP_BAD_SET_UTF8 (OP_BAD_SET_EXP + 5)
#define NOPS (OP_BAD_SET_EXP + 6)

static const char *op_name(int op)
{
	static char b[96];
	if (op < OP_EXPLEE) {
		int c = op / PERCLAIM, k = op % PERCLAIM;
		if (k == PERCLAIM - 1)
			snprintf(b, sizeof b, "claim_del(%s)", CNAME[c]);
		else
			snprintf(b, sizeof b, "claim_set(%s,%s)", CNAME[c], STRV[k + 1]);
	} else if (op < OP_NBFLEE)
		snprintf(b, sizeof b, "time_leeway(EXP,%ld)", EXPLEE[op - OP_EXPLEE]);
	else if (op < OP_BAD_SET_EXP)
		snprintf(b, sizeof b, "time_leeway(NBF,%ld)", NBFLEE[op - OP_NBFLEE]);
	else if (op == OP_BAD_SET_EXP) snprintf(b, sizeof b, "claim_set(EXP,x)!");
	else if (op == OP_BAD_LEE_ISS) snprintf(b, sizeof b, "time_leeway(ISS,3)!");
	else if (op == OP_BAD_SET_NULL) snprintf(b, sizeof b, "claim_set(ISS,NULL)!");
	else if (op == OP_BAD_SET_IAT) snprintf(b, sizeof b, "claim_set(IAT,x)!");
	else if (op == OP_BAD_SET_UTF8) snprintf(b, sizeof b, "claim_set(ISS,<not UTF-8>)!");
	else snprintf(b, sizeof b, "claim_del(EXP)!");
	return b;
}

/* model step: returns expected return code (0 ok / 1 error) */
static int model_step(cst_t *s, int op)
{
	if (op < OP_EXPLEE) {
		int c = op / PERCLAIM, k = op % PERCLAIM;
		s->str[c] = k == PERCLAIM - 1 ? 0 : k + 1;
		if (c == 0)
			s->limbo = 0;
		return 0;
	}
	if (op < OP_NBFLEE) {
		s->exp_i = op - OP_EXPLEE;
		return 0;
	}
	if (op < OP_BAD_SET_EXP) {
		s->nbf_i = op - OP_NBFLEE;
		return 0;
	}
	if (op == OP_BAD_SET_UTF8)
		s->limbo = 1;
	return 1; /* invalid calls: error, nothing changes */
}

static int impl_step(jwt_checker_t *c, int op)
{
	if (op < OP_EXPLEE) {
		int cl = op / PERCLAIM, k = op % PERCLAIM;
		if (k == PERCLAIM - 1)
			return jwt_checker_claim_del(c, CTYPE[cl]) != 0;
		return jwt_checker_claim_set(c, CTYPE[cl], STRV[k + 1]) != 0;
	}
	if (op < OP_NBFLEE)
		return jwt_checker_time_leeway(c, JWT_CLAIM_EXP, EXPLEE[op - OP_EXPLEE]) != 0;
	if (op < OP_BAD_SET_EXP)
		return jwt_checker_time_leeway(c, JWT_CLAIM_NBF, NBFLEE[op - OP_NBFLEE]) != 0;
	switch (op) {
	case OP_BAD_SET_EXP: return jwt_checker_claim_set(c, JWT_CLAIM_EXP, "x") != 0;
	case OP_BAD_LEE_ISS: return jwt_checker_time_leeway(c, JWT_CLAIM_ISS, 3) != 0;
	case OP_BAD_SET_NULL: return jwt_checker_claim_set(c, JWT_CLAIM_ISS, NULL) != 0;
	case OP_BAD_SET_IAT: return jwt_checker_claim_set(c, JWT_CLAIM_IAT, "x") != 0;
	case OP_BAD_SET_UTF8: return jwt_checker_claim_set(c, JWT_CLAIM_ISS, "caf\xe9") != 0;
	default: return jwt_checker_claim_del(c, JWT_CLAIM_EXP) != 0;
	}
}

/* ================================================================== probe tokens */
enum { TK_ABSENT, TK_INT, TK_NONINT };
typedef struct {
	const char *label;
	int kind;
	long rel;        /* TK_INT: value = boundary + rel when relative, else absolute */
	int relative;
	const char *text; /* TK_NONINT: JSON text */
} tshape_t;

static const tshape_t TSHAPES[] = {
	{ "absent", TK_ABSENT, 0, 0, NULL },
	{ "b-1", TK_INT, -1, 1, NULL },
	{ "b", TK_INT, 0, 1, NULL },
	{ "b+1", TK_INT, 1, 1, NULL },
	{ "-1", TK_INT, -1, 0, NULL },
	{ "0", TK_INT, 0, 0, NULL },
	{ "INT64_MIN", TK_INT, LONG_MIN, 0, NULL },
	{ "INT64_MAX", TK_INT, LONG_MAX, 0, NULL },
	{ "\"5\"", TK_NONINT, 0, 0, "\"5\"" },
	{ "5.0", TK_NONINT, 0, 0, "5.0" },
	{ "1e3", TK_NONINT, 0, 0, "1e3" },
	{ "true", TK_NONINT, 0, 0, "true" },
	{ "null", TK_NONINT, 0, 0, "null" },
	{ "[]", TK_NONINT, 0, 0, "[]" },
	{ "{}", TK_NONINT, 0, 0, "{}" },
};
#define NTSH ((int)(sizeof TSHAPES / sizeof *TSHAPES))

enum { SK_ABSENT, SK_STR, SK_NONSTR, SK_POISON };
typedef struct {
	const char *label;
	int kind;
	const char *fmt; /* JSON text; %s = expected value */
	int equal;       /* string shape equal to the expected value */
} sshape_t;

static const sshape_t SSHAPES[] = {
	{ "absent", SK_ABSENT, NULL, 0 },
	{ "equal", SK_STR, "\"%s\"", 1 },
	{ "prefix", SK_STR, "\"\"", 0 },           /* proper prefix of a one-char value is "" -- see longer variant below */
	{ "suffixed", SK_STR, "\"%sx\"", 0 },
	{ "case", SK_STR, "\"%s\"", 0 },           /* upper-cased in build */
	{ "doubled", SK_STR, "\"%s%s\"", 0 },
	{ "non-ascii", SK_STR, "\"%s\\u00e9\"", 0 },
	{ "escaped-nul", SK_POISON, "\"%s\\u0000\"", 0 },
	{ "number", SK_NONSTR, "7", 0 },
	{ "null", SK_NONSTR, "null", 0 },
	{ "array", SK_NONSTR, "[\"%s\"]", 0 },
	{ "object", SK_NONSTR, "{\"v\":\"%s\"}", 0 },
	{ "true", SK_NONSTR, "true", 0 },
};
#define NSSH ((int)(sizeof SSHAPES / sizeof *SSHAPES))

typedef struct {
	int exp, nbf, s[3];   /* shape indices */
} probe_t;

static probe_t *PROBES;
static int NPROBES;

static void add_probe(int e, int n, int a, int b, int c)
{
	PROBES[NPROBES++] = (probe_t){ e, n, { a, b, c } };
}

/* pass-baseline shapes: exp b+1 (3), nbf b (2) -> passes, strings equal (1)
 * fail-baseline shapes: exp b (2), nbf b+1 (3), strings suffixed (3)          */
static void build_probes(int full)
{
	PROBES = malloc(sizeof(probe_t) * 8192);
	const int PE = 3, PN = 2, PS = 1, FE = 2, FN = 3, FS = 3;
	/* singles from the all-pass and from the all-fail baseline */
	for (int base = 0; base < 2; base++) {
		int be = base ? FE : PE, bn = base ? FN : PN, bs = base ? FS : PS;
		for (int i = 0; i < NTSH; i++) {
			add_probe(i, bn, bs, bs, bs);
			add_probe(be, i, bs, bs, bs);
		}
		for (int c = 0; c < 3; c++)
			for (int i = 0; i < NSSH; i++) {
				int s[3] = { bs, bs, bs };
				s[c] = i;
				add_probe(be, bn, s[0], s[1], s[2]);
			}
	}
	if (!full)
		return;
	/* all pairs, the other claims at the pass baseline */
	for (int i = 0; i < NTSH; i++)
		for (int j = 0; j < NTSH; j++)
			add_probe(i, j, PS, PS, PS);
	for (int c = 0; c < 3; c++)
		for (int i = 0; i < NTSH; i++)
			for (int j = 0; j < NSSH; j++) {
				int s[3] = { PS, PS, PS };
				s[c] = j;
				add_probe(i, PN, s[0], s[1], s[2]);
				add_probe(PE, i, s[0], s[1], s[2]);
			}
	for (int c = 0; c < 3; c++)
		for (int d = c + 1; d < 3; d++)
			for (int i = 0; i < NSSH; i++)
				for (int j = 0; j < NSSH; j++) {
					int s[3] = { PS, PS, PS };
					s[c] = i;
					s[d] = j;
					add_probe(PE, PN, s[0], s[1], s[2]);
				}
}

static const time_t T0 = 1700000000;

/* JSON text of a time-claim shape in state boundary `bnd`; returns 0 if absent */
static int tshape_text(const tshape_t *t, long bnd, char *out, size_t n, long *val)
{
	if (t->kind == TK_ABSENT)
		return 0;
	if (t->kind == TK_INT) {
		long v = t->relative ? bnd + t->rel : t->rel;
		*val = v;
		snprintf(out, n, "%ld", v);
		return 1;
	}
	snprintf(out, n, "%s", t->text);
	return 1;
}

static int sshape_text(int shape, const char *expect, char *out, size_t n)
{
	const sshape_t *s = &SSHAPES[shape];
	char tmp[64];
	if (s->kind == SK_ABSENT)
		return 0;
	if (!*expect && (!strcmp(s->label, "case") || !strcmp(s->label, "prefix") || !strcmp(s->label, "doubled"))) {
		/* the empty expectation has no other spelling, no proper prefix and is its own double: the nearest other strings stand in */
		snprintf(out, n, "\"%s\"", !strcmp(s->label, "case") ? "A" : !strcmp(s->label, "prefix") ? " " : "aa");
	} else if (!strcmp(s->label, "case")) {
		snprintf(tmp, sizeof tmp, "%s", expect);
		tmp[0] -= 32;
		snprintf(out, n, s->fmt, tmp);
	} else if (!strcmp(s->label, "prefix")) {
		snprintf(tmp, sizeof tmp, "%s", expect);
		tmp[strlen(tmp) - 1] = 0;   /* proper prefix: everything but the last byte */
		snprintf(out, n, "\"%s\"", tmp);
	} else
		snprintf(out, n, s->fmt, expect, expect);
	return 1;
}

/* build the payload JSON of a probe for model state s (boundaries at clock T0) */
static void probe_payload(const probe_t *p, const cst_t *s, char *out, size_t n)
{
	long el = EXPLEE[s->exp_i] < 0 ? 0 : EXPLEE[s->exp_i];
	long nl = NBFLEE[s->nbf_i] < 0 ? 0 : NBFLEE[s->nbf_i];
	long eb = T0 - el, nb = T0 + nl, v;
	char t[128];
	size_t o = 0;
	o += snprintf(out + o, n - o, "{\"probe\":1");
	if (tshape_text(&TSHAPES[p->exp], eb, t, sizeof t, &v))
		o += snprintf(out + o, n - o, ",\"exp\":%s", t);
	if (tshape_text(&TSHAPES[p->nbf], nb, t, sizeof t, &v))
		o += snprintf(out + o, n - o, ",\"nbf\":%s", t);
	for (int c = 0; c < 3; c++) {
		const char *expect = STRV[s->str[c]] ? STRV[s->str[c]] : "a";   /* no expectation configured: the shapes are built around "a" */
		if (sshape_text(p->s[c], expect, t, sizeof t))
			o += snprintf(out + o, n - o, ",\"%s\":%s", CNAME[c], t);
	}
	snprintf(out + o, n - o, "}");
}

/* ref_claims: 1 must accept, 0 must reject, -1 no demand; *why = first failing check */
static int ref_claims(const probe_t *p, const cst_t *s, time_t now, const char **why)
{
	long el = EXPLEE[s->exp_i], nl = NBFLEE[s->nbf_i];
	long eb0 = T0 - (el < 0 ? 0 : el), nb0 = T0 + (nl < 0 ? 0 : nl);
	int poison = 0, fail = 0;
	*why = "";
	for (int c = 0; c < 3; c++)
		if (SSHAPES[p->s[c]].kind == SK_POISON)
			poison = 1;
	const tshape_t *te = &TSHAPES[p->exp], *tn = &TSHAPES[p->nbf];
	if (el >= 0 && te->kind != TK_ABSENT) {
		if (te->kind == TK_NONINT) { fail = 1; *why = "exp-type"; }
		else {
			long v = te->relative ? eb0 + te->rel : te->rel;
			/* accepted only while exp > now - leeway */
			if (!(v > (long)now - el)) { fail = 1; *why = "exp"; }
		}
	}
	if (!fail && nl >= 0 && tn->kind != TK_ABSENT) {
		if (tn->kind == TK_NONINT) { fail = 1; *why = "nbf-type"; }
		else {
			long v = tn->relative ? nb0 + tn->rel : tn->rel;
			/* accepted only once nbf <= now + leeway */
			if (!(v <= (long)now + nl)) { fail = 1; *why = "nbf"; }
		}
	}
	int iss_open = 0;
	for (int c = 0; c < 3 && !fail; c++) {
		const sshape_t *sh = &SSHAPES[p->s[c]];
		if (c == 0 && s->limbo) {
			/* no earlier expectation: nothing or fail-closed; earlier expectation: it, or fail-closed */
			if (!s->str[0] || (sh->kind == SK_STR && sh->equal))
				iss_open = 1;
			else { fail = 1; *why = CNAME[c]; }
			continue;
		}
		if (!s->str[c])
			continue;
		if (!(sh->kind == SK_STR && sh->equal)) { fail = 1; *why = CNAME[c]; }
	}
	if (fail)
		return 0;
	if (poison || iss_open)
		return -1;   /* every enabled check passes but the payload is not acceptable JSON for jansson */
	return 1;
}

/* ================================================================== BFS */
static int parent[NSTATES], parent_op[NSTATES], depth[NSTATES], order[NSTATES], norder;

static void bfs(void)
{
	for (int i = 0; i < NSTATES; i++)
		parent[i] = -2;
	cst_t init = { 1, 1, { 0, 0, 0 }, 0 };
	int q[NSTATES], qh = 0, qt = 0;
	int id0 = st_id(&init);
	parent[id0] = -1;
	depth[id0] = 0;
	q[qt++] = id0;
	while (qh < qt) {
		int id = q[qh++];
		order[norder++] = id;
		for (int op = 0; op < NOPS; op++) {
			cst_t s = st_of(id);
			model_step(&s, op);
			int nid = st_id(&s);
			if (parent[nid] == -2) {
				parent[nid] = id;
				parent_op[nid] = op;
				depth[nid] = depth[id] + 1;
				q[qt++] = nid;
			}
		}
	}
}

static int history(int id, int *ops)
{
	int n = 0, tmp[64];
	while (parent[id] >= 0) {
		tmp[n++] = parent_op[id];
		id = parent[id];
	}
	for (int i = 0; i < n; i++)
		ops[i] = tmp[n - 1 - i];
	return n;
}

static const char *hist_str(const int *ops, int n)
{
	static char b[1500];
	size_t o = 0;
	b[0] = 0;
	for (int i = 0; i < n && o < sizeof b - 80; i++)
		o += snprintf(b + o, sizeof b - o, "%s%s", i ? ";" : "", op_name(ops[i]));
	return b;
}

/* fresh checker driven through ops; every return code is compared with the model ("canon-on-replay") */
static jwt_checker_t *replay_history(const int *ops, int n, cst_t *model, int *diverged)
{
	jwt_checker_t *c = jwt_checker_new();
	cst_t s = { 1, 1, { 0, 0, 0 } };
	*diverged = 0;
	for (int i = 0; i < n; i++) {
		int mrc = model_step(&s, ops[i]);
		int irc = impl_step(c, ops[i]);
		if (mrc != irc) {
			vf_violation("config-call-return", "step %d %s returned %d, model says %d (history %s)", i, op_name(ops[i]), irc, mrc, hist_str(ops, n));
			*diverged = 1;
		}
	}
	*model = s;
	return c;
}

static void check_observers(jwt_checker_t *c, const cst_t *s, const int *ops, int n)
{
	for (int k = 0; k < 3; k++) {
		const char *got = jwt_checker_claim_get(c, CTYPE[k]);
		const char *want = STRV[s->str[k]];
		if (k == 0 && s->limbo && (got == NULL || (want && !strcmp(got, want))))
			continue;   /* after a refused claim_set: the earlier value or none */
		if ((got == NULL) != (want == NULL) || (got && strcmp(got, want)))
			vf_violation("claim_get-differs", "claim_get(%s)=%s, model %s after %s", CNAME[k], got ? got : "NULL", want ? want : "NULL", hist_str(ops, n));
	}
	if (jwt_checker_claim_get(c, JWT_CLAIM_EXP) != NULL)
		vf_violation("claim_get-differs", "claim_get(EXP) returned a value");
}

static unsigned char HKEY[32];
static jwk_set_t *hset;
static long n_verifies, n_acc, n_rej;

/* run a battery on checker c (model state s).  signed_mode: 0 unsigned on key-less, 1 HS256 signed with key */
static void run_battery(jwt_checker_t *c, const cst_t *s, int nprobes, int signed_mode, const int *ops, int nops)
{
	static const char HDR_NONE[] = "{\"alg\":\"none\"}", HDR_HS[] = "{\"alg\":\"HS256\",\"typ\":\"JWT\"}";
	static const long CLK[] = { 0, 1, 1L << 33 };
	if (signed_mode)
		jwt_checker_setkey(c, JWT_ALG_HS256, jwks_item_get(hset, 0));
	for (int i = 0; i < nprobes; i++) {
		char payload[512];
		probe_payload(&PROBES[i], s, payload, sizeof payload);
		char *input = tok_signing_input(signed_mode ? HDR_HS : HDR_NONE, payload);
		char *tok;
		if (signed_mode) {
			unsigned char mac[64];
			size_t l = rc_hmac(JWT_ALG_HS256, HKEY, sizeof HKEY, input, strlen(input), mac);
			tok = tok_attach(input, mac, l);
		} else {
			tok = malloc(strlen(input) + 2);
			sprintf(tok, "%s.", input);
		}
		for (unsigned k = 0; k < sizeof CLK / sizeof *CLK; k++) {
			const char *why;
			vf_now = T0 + CLK[k];
			int want = ref_claims(&PROBES[i], s, vf_now, &why);
			int r = jwt_checker_verify(c, tok);
			n_verifies++;
			if (r == 0) n_acc++; else n_rej++;
			vf_obs(vf_hash_mix(r == 0, want));
			if (r == 0 && want == 0) {
				char key[96];
				snprintf(key, sizeof key, "accepted-despite-failing|%s", why);
				vf_violation(key, "clock=T0+%ld %s payload=%s config-history=%s", CLK[k], signed_mode ? "HS256-signed" : "unsigned", payload, hist_str(ops, nops));
			} else if (r != 0 && want == 1) {
				vf_violation("rejected-though-all-checks-pass", "clock=T0+%ld %s payload=%s msg=%s config-history=%s", CLK[k],
					     signed_mode ? "HS256-signed" : "unsigned", payload, jwt_checker_error_msg(c), hist_str(ops, nops));
			}
		}
		vf_now = T0;
		free(tok);
		free(input);
	}
}

static void enumerate_c04(void)
{
	bfs();
	build_probes(1);
	int nfull = NPROBES;
	/* the singles come first in PROBES: their count is the reduced battery */
	int nreduced = 2 * (2 * NTSH + 3 * NSSH);
	vk_oct_bytes(7, HKEY, sizeof HKEY);
	char *jt = vk_oct_jwk(HKEY, sizeof HKEY, NULL, NULL);
	hset = jwks_create(jt);
	free(jt);
	int transitions = 0, maxdepth = 0;
	/* --- every state: full (thorough) or reduced (quick) battery, unsigned and signed --- */
	for (int k = 0; k < norder; k++) {
		int id = order[k], ops[64];
		int n = history(id, ops);
		if (depth[id] > maxdepth)
			maxdepth = depth[id];
		for (int sm = 0; sm < 2; sm++) {
			if (!vf_case("state %d after [%s]: %s battery on %s checker", id, hist_str(ops, n), vf_thorough ? "full" : "reduced", sm ? "HS256-keyed" : "key-less"))
				continue;
			cst_t s;
			int div;
			jwt_checker_t *c = replay_history(ops, n, &s, &div);
			if (st_id(&s) != id)
				vf_violation("harness|model-replay", "model replay reached %d not %d", st_id(&s), id);
			check_observers(c, &s, ops, n);
			run_battery(c, &s, vf_thorough ? nfull : nreduced, sm, ops, n);
			jwt_checker_free(c);
			vf_nontrivial_case();
		}
	}
	/* --- every transition: return code, observers, reduced battery in the successor state --- */
	for (int k = 0; k < norder; k++) {
		int id = order[k], ops[64];
		int n = history(id, ops);
		for (int op = 0; op < NOPS; op++) {
			transitions++;
			if (!vf_case("transition from state %d [%s] by %s", id, hist_str(ops, n), op_name(op)))
				continue;
			ops[n] = op;
			cst_t s;
			int div;
			jwt_checker_t *c = replay_history(ops, n + 1, &s, &div);
			check_observers(c, &s, ops, n + 1);
			run_battery(c, &s, nreduced, 0, ops, n + 1);
			jwt_checker_free(c);
			vf_nontrivial_case();
		}
	}
	/* --- non-initial starts: the same state reached by a second, longer history must behave identically --- */
	for (int k = 0; k < norder; k++) {
		int id = order[k], ops[64];
		int n = history(id, ops);
		if (!vf_case("state %d re-reached through a detour: [disable all; %s]", id, hist_str(ops, n)))
			continue;
		/* detour: flip everything first, then redo the canonical history followed by the full re-assertion of s */
		int det[96], m = 0;
		det[m++] = OP_EXPLEE + 0; det[m++] = OP_NBFLEE + 0;
		det[m++] = 0 * PERCLAIM + 1; det[m++] = 1 * PERCLAIM + 1; det[m++] = 2 * PERCLAIM + 1;
		det[m++] = OP_BAD_SET_EXP; det[m++] = OP_BAD_LEE_ISS;
		cst_t want = st_of(id);
		det[m++] = OP_EXPLEE + want.exp_i;
		det[m++] = OP_NBFLEE + want.nbf_i;
		for (int c = 0; c < 3; c++)
			det[m++] = c * PERCLAIM + (want.str[c] == 0 ? PERCLAIM - 1 : want.str[c] - 1);
		if (want.limbo)
			det[m++] = OP_BAD_SET_UTF8;
		cst_t s;
		int div;
		jwt_checker_t *c = replay_history(det, m, &s, &div);
		if (st_id(&s) != id)
			vf_violation("harness|detour", "detour reached %d not %d", st_id(&s), id);
		check_observers(c, &s, det, m);
		run_battery(c, &s, nreduced, 0, det, m);
		jwt_checker_free(c);
		vf_nontrivial_case();
	}
	vf_count("=states", norder);
	vf_count("=transitions", transitions);
	vf_count("=max_depth", maxdepth);
	vf_count("evaluations", n_verifies);
	vf_count("accepted", n_acc);
	vf_count("rejected", n_rej);
	vf_count("=probe_tokens_full", nfull);
	vf_count("=probe_tokens_reduced", nreduced);
	jwks_free(hset);
}

/* ================================================================== C19: callback programs */
#define NCBOPS 21
static const char *cbop_name[NCBOPS + 3] = { "claim_del(exp)", "claim_del(nbf)", "claim_del(iss)", "claim_del(sub)", "claim_del(aud)", "claim_del(all)",
	"claim_set(exp=future,replace)", "claim_set(nbf=past,replace)", "claim_set(iss=good,replace)", "claim_set(sub=good,replace)",
	"claim_set(aud=good,replace)", "claim_merge(all good,replace)", "header_set(alg=none,replace)", "header_set(alg=HS256,replace)",
	"header_del(alg)", "header_del(all)", "get(claims,alg)",
	/* calls the library refuses (the refusal is the callback's business, not the verdict's) */
	"claim_set(x,NULL)!, claim_set(exp|nbf|iss|sub|aud,<not UTF-8>,replace)!", "claim_set(empty name)!, header_set(NULL name)!", "claim_set(j, malformed JSON)!, header_set(JSON \"5\")!",
	/* 255 harmless changes in a row: with one more operation the callback has changed the token 256 times */
	"255 x claim_set(pad=i,replace)",
	/* configuration edits: only in vetoing programs, and (the first) in accepting programs against a keyed baseline */
	"config(key=HS,alg=HS256)", "config(key=HS)", "config(key=NULL,alg=none)" };
#define NCBOPS_ALL 24
static const char *cbop_class(int op)
{
	return op < 6 ? "claim_del" : op < 11 ? "claim_set" : op == 11 ? "claim_merge" : op < 14 ? "header_set" : op < 16 ? "header_del" : op == 16 ? "get" : op < 20 ? "refused_set" : op == 20 ? "many_sets" : "config";
}

typedef struct {
	int n, op[4], ret;
	int ran;
} prog_t;

static void run_cbop(jwt_t *jwt, jwt_config_t *cfg, int op)
{
	jwt_value_t v;
	static const char *names[] = { "exp", "nbf", "iss", "sub", "aud" };
	char merge[200];
	switch (op) {
	case 0: case 1: case 2: case 3: case 4:
		jwt_claim_del(jwt, names[op]);
		break;
	case 5:
		jwt_claim_del(jwt, NULL);
		break;
	case 6:
		jwt_set_SET_INT(&v, "exp", T0 + 1000); v.replace = 1; jwt_claim_set(jwt, &v);
		break;
	case 7:
		jwt_set_SET_INT(&v, "nbf", T0 - 1000); v.replace = 1; jwt_claim_set(jwt, &v);
		break;
	case 8: case 9: case 10:
		jwt_set_SET_STR(&v, names[op - 6], "good"); v.replace = 1; jwt_claim_set(jwt, &v);
		break;
	case 11:
		snprintf(merge, sizeof merge, "{\"exp\":%ld,\"nbf\":%ld,\"iss\":\"good\",\"sub\":\"good\",\"aud\":\"good\"}", (long)T0 + 1000, (long)T0 - 1000);
		jwt_set_SET_JSON(&v, NULL, merge); v.replace = 1; jwt_claim_set(jwt, &v);
		break;
	case 12:
		jwt_set_SET_STR(&v, "alg", "none"); v.replace = 1; jwt_header_set(jwt, &v);
		break;
	case 13:
		jwt_set_SET_STR(&v, "alg", "HS256"); v.replace = 1; jwt_header_set(jwt, &v);
		break;
	case 14:
		jwt_header_del(jwt, "alg");
		break;
	case 15:
		jwt_header_del(jwt, NULL);
		break;
	case 16:
		jwt_set_GET_JSON(&v, NULL);
		if (jwt_claim_get(jwt, &v) == JWT_VALUE_ERR_NONE)
			free(v.json_val);
		jwt_set_GET_STR(&v, "alg");
		jwt_header_get(jwt, &v);
		(void)jwt_get_alg(jwt);
		break;
	case 17:
		jwt_set_SET_STR(&v, "x", NULL); v.replace = 1; jwt_claim_set(jwt, &v);
		/* a replacement the library refuses for its value: whatever it did to the member on the way, the verdict is not the callback's */
		for (int i = 0; i < 5; i++) {
			jwt_set_SET_STR(&v, names[i], "\xff\xfe"); v.replace = 1; jwt_claim_set(jwt, &v);
		}
		break;
	case 18:
		jwt_set_SET_INT(&v, "", 7); jwt_claim_set(jwt, &v);
		jwt_set_SET_STR(&v, NULL, "y"); jwt_header_set(jwt, &v);
		break;
	case 19: {
		char bad[] = "{\"a\":", five[] = "5";
		jwt_set_SET_JSON(&v, "j", bad); v.replace = 1; jwt_claim_set(jwt, &v);
		jwt_set_SET_JSON(&v, NULL, five); v.replace = 1; jwt_header_set(jwt, &v);
		break;
	}
	case 20:
		for (int i = 0; i < 255; i++) {
			jwt_set_SET_INT(&v, "pad", i); v.replace = 1; jwt_claim_set(jwt, &v);
		}
		break;
	case 21:
		cfg->key = jwks_item_get(hset, 0); cfg->alg = JWT_ALG_HS256;
		break;
	case 22:
		cfg->key = jwks_item_get(hset, 0);
		break;
	case 23:
		cfg->key = NULL; cfg->alg = JWT_ALG_NONE;
		break;
	}
}

static int prog_cb(jwt_t *jwt, jwt_config_t *cfg)
{
	prog_t *p = cfg->ctx;
	p->ran++;
	for (int i = 0; i < p->n; i++)
		run_cbop(jwt, cfg, p->op[i]);
	return p->ret;
}

static const char *prog_str(const prog_t *p)
{
	static char b[400];
	size_t o = 0;
	b[0] = 0;
	for (int i = 0; i < p->n; i++)
		o += snprintf(b + o, sizeof b - o, "%s%s", i ? "; " : "", cbop_name[p->op[i]]);
	snprintf(b + o, sizeof b - o, "%sreturn %d", p->n ? "; " : "", p->ret);
	return b;
}

/* checker claim configurations: bit0 exp, bit1 nbf, bit2 iss, bit3 sub, bit4 aud */
static const int CFGS[] = { 0x01, 0x02, 0x04, 0x08, 0x10, 0x1f, 0x00, 0x03 };
static jwt_checker_t *cfg_checker(int mask, int keyed)
{
	jwt_checker_t *c = jwt_checker_new();
	if (!(mask & 1)) jwt_checker_time_leeway(c, JWT_CLAIM_EXP, -1);
	if (!(mask & 2)) jwt_checker_time_leeway(c, JWT_CLAIM_NBF, -1);
	if (mask & 4) jwt_checker_claim_set(c, JWT_CLAIM_ISS, "good");
	if (mask & 8) jwt_checker_claim_set(c, JWT_CLAIM_SUB, "good");
	if (mask & 16) jwt_checker_claim_set(c, JWT_CLAIM_AUD, "good");
	if (keyed)
		jwt_checker_setkey(c, JWT_ALG_HS256, jwks_item_get(hset, 0));
	return c;
}

static const char *C19_PAYLOADS[] = {
	"{\"exp\":1700000100,\"nbf\":1699999900,\"iss\":\"good\",\"sub\":\"good\",\"aud\":\"good\"}",
	"{\"exp\":1699999900,\"nbf\":1699999900,\"iss\":\"good\",\"sub\":\"good\",\"aud\":\"good\"}",
	"{\"exp\":1700000100,\"nbf\":1700000100,\"iss\":\"good\",\"sub\":\"good\",\"aud\":\"good\"}",
	"{\"exp\":1700000100,\"nbf\":1699999900,\"iss\":\"evil\",\"sub\":\"good\",\"aud\":\"good\"}",
	"{\"exp\":1700000100,\"nbf\":1699999900,\"iss\":\"good\",\"sub\":\"evil\",\"aud\":\"good\"}",
	"{\"exp\":1700000100,\"nbf\":1699999900,\"iss\":\"good\",\"sub\":\"good\",\"aud\":\"evil\"}",
	"{\"exp\":\"x\",\"nbf\":1699999900,\"iss\":\"good\",\"sub\":\"good\",\"aud\":\"good\"}",
	"{\"exp\":1700000100,\"nbf\":1699999900,\"iss\":7,\"sub\":\"good\",\"aud\":[\"good\"]}",
	"{}",
	/* wrongly typed and null members: a snapshot/restore around the callback must not confuse them with absent ones */
	"{\"exp\":null,\"nbf\":1699999900,\"iss\":\"good\",\"sub\":\"good\",\"aud\":\"good\"}",
	"{\"exp\":1700000100,\"nbf\":null,\"iss\":\"good\",\"sub\":\"good\",\"aud\":\"good\"}",
	"{\"exp\":1700000100,\"nbf\":1699999900,\"iss\":null,\"sub\":null,\"aud\":null}",
	"{\"exp\":true,\"nbf\":false,\"iss\":\"good\",\"sub\":\"good\",\"aud\":\"good\"}",
	"{\"exp\":1700000100.5,\"nbf\":[1699999900],\"iss\":\"good\",\"sub\":{\"a\":\"good\"},\"aud\":\"good\"}",
};
#define NC19P ((int)(sizeof C19_PAYLOADS / sizeof *C19_PAYLOADS))

static char *c19_token(int payload, int sigkind)
{
	static const char HDR_NONE[] = "{\"alg\":\"none\"}", HDR_HS[] = "{\"alg\":\"HS256\",\"typ\":\"JWT\"}";
	char *input = tok_signing_input(sigkind ? HDR_HS : HDR_NONE, C19_PAYLOADS[payload]);
	char *tok;
	if (sigkind) {
		unsigned char mac[64];
		size_t l = rc_hmac(JWT_ALG_HS256, HKEY, sizeof HKEY, input, strlen(input), mac);
		if (sigkind == 2)
			mac[5] ^= 0x10;
		tok = tok_attach(input, mac, l);
	} else {
		tok = malloc(strlen(input) + 2);
		sprintf(tok, "%s.", input);
	}
	free(input);
	return tok;
}

static long n_progs, n_bent;

static void c19_cell(const prog_t *prog, int mask, int keyed, int payload, int sigkind)
{
	char *tok = c19_token(payload, sigkind);
	jwt_checker_t *base = cfg_checker(mask, keyed);
	int r0 = jwt_checker_verify(base, tok);
	jwt_checker_free(base);
	jwt_checker_t *c = cfg_checker(mask, keyed);
	prog_t p = *prog;
	p.ran = 0;
	jwt_checker_setcb(c, prog_cb, &p);
	int r = jwt_checker_verify(c, tok);
	n_verifies += 2;
	vf_obs(vf_hash_mix(r0 == 0, r == 0));
	if (p.ran)
		vf_nontrivial_case();
	if (p.ret != 0) {
		if (r == 0)
			vf_violation("callback-error-ignored", "callback returned %d but verify returned 0: program [%s] mask=%#x keyed=%d payload=%s sig=%d",
				     p.ret, prog_str(&p), mask, keyed, C19_PAYLOADS[payload], sigkind);
		else if (p.ran && (!jwt_checker_error(c) || !jwt_checker_error_msg(c)[0]))
			vf_obs(99);
	} else if ((r == 0) != (r0 == 0)) {
		char key[120];
		n_bent++;
		snprintf(key, sizeof key, "callback-bends-verdict|%s|%s", r == 0 ? "reject-becomes-accept" : "accept-becomes-reject",
			 p.n ? cbop_class(p.op[0]) : "empty");
		vf_violation(key, "without callback verify=%d, with callback [%s] verify=%d: checks-mask=%#x keyed=%d payload=%s sig=%s", r0, prog_str(&p), r,
			     mask, keyed, C19_PAYLOADS[payload], sigkind == 0 ? "unsigned" : sigkind == 1 ? "valid" : "bad");
	}
	jwt_checker_free(c);
	free(tok);
}

/* every program of length <= maxlen over the first `alphabet` operations (optionally after a fixed first operation), each return value */
static void c19_programs(int alphabet, int maxlen, const int *rets, int nrets, int first)
{
	for (int len = 0; len <= maxlen; len++) {
		int total = 1;
		for (int i = 0; i < len; i++)
			total *= alphabet;
		for (int code = 0; code < total; code++) {
			prog_t p = { 0, { 0, 0, 0, 0 }, 0, 0 };
			int c = code, off = first >= 0;
			if (off)
				p.op[0] = first;
			p.n = len + off;
			for (int i = len - 1; i >= 0; i--) {
				p.op[i + off] = c % alphabet;
				c /= alphabet;
			}
			n_progs++;
			for (int ri = 0; ri < nrets; ri++) {
				/* longer vetoing programs: one return value each, rotating */
				if (nrets > 1 && len > 1 && ri != code % nrets)
					continue;
				p.ret = rets[ri];
				for (unsigned m = 0; m < sizeof CFGS / sizeof *CFGS; m++)
					for (int keyed = first >= 0; keyed < 2; keyed++) {
						if (!vf_case("program [%s] checks-mask=%#x keyed=%d x %d payloads x 3 signature kinds", prog_str(&p), CFGS[m], keyed, NC19P))
							continue;
						for (int pl = 0; pl < NC19P; pl++)
							for (int sk = 0; sk < 3; sk++)
								c19_cell(&p, CFGS[m], keyed, pl, sk);
					}
			}
		}
	}
}

static void enumerate_c19(void)
{
	vk_oct_bytes(7, HKEY, sizeof HKEY);
	char *jt = vk_oct_jwk(HKEY, sizeof HKEY, NULL, NULL);
	hset = jwks_create(jt);
	free(jt);
	/* accepting programs (return 0): token-mutating calls only, differential against the same checker without callback */
	static const int RET0[] = { 0 };
	c19_programs(NCBOPS, vf_thorough ? 4 : 2, RET0, 1, -1);
	/* ... and programs that start by selecting the key the baseline already has (keyed baseline only) */
	c19_programs(NCBOPS, vf_thorough ? 2 : 1, RET0, 1, 21);
	/* vetoing programs: whatever the callback did to the token or to the configuration, verification fails */
	static const int VETO[] = { 1, -1, 2, 256, INT_MIN };
	c19_programs(NCBOPS_ALL, vf_thorough ? 3 : 2, VETO, 5, -1);
	vf_count("=programs", n_progs);
	vf_count("=states", n_progs);
	vf_count("evaluations", n_verifies);
	vf_count("transitions", n_verifies / 2);
	jwks_free(hset);
}

static void enumerate(void)
{
	vf_alloc_install();
	lj_select_provider(vf_param);
	if (!strcmp(vf_prop, "C04"))
		enumerate_c04();
	else if (!strcmp(vf_prop, "C19"))
		enumerate_c19();
	else {
		fprintf(stderr, "claims: unknown --prop %s\n", vf_prop);
		exit(2);
	}
}

int main(int argc, char **argv)
{
	return vf_main(argc, argv, enumerate);
}
