#!/usr/bin/env python3
"""check.py <ID> --tier quick|thorough      run the check for one property
   check.py <ID> --replay <path>            re-execute one recorded violation

Exit 0: property held on everything explored (KNOWN-FINDING lines allowed).
Exit 1: VIOLATION property=<ID> replay=<path> printed for each new finding.
Exit 2: harness error (build failure, nondeterminism, vacuous exploration).
"""
import json, os, re, shutil, subprocess, sys, time, glob

VERIF = os.path.dirname(os.path.abspath(__file__))
sys.path.insert(0, VERIF)
import build  # noqa: E402
from props import PROPS  # noqa: E402

NCPU = 16
KNOWN = os.path.join(VERIF, "KNOWN_FINDINGS.txt")


def log(*a):
    print(*a, flush=True)


def base_env():
    e = dict(os.environ)
    e["VERIF_DIR"] = VERIF
    e["ASAN_OPTIONS"] = ("detect_leaks=0:abort_on_error=0:exitcode=86:symbolize=1:"
                         "allocator_may_return_null=1:detect_stack_use_after_return=0:handle_abort=1:"
                         "quarantine_size_mb=1:thread_local_quarantine_size_kb=16")
    e["UBSAN_OPTIONS"] = "print_stacktrace=1:halt_on_error=1:exitcode=87"
    e["LSAN_OPTIONS"] = "exitcode=0:print_suppressions=0"
    e["TSAN_OPTIONS"] = "exitcode=66:halt_on_error=0:second_deadlock_stack=1"
    e["ASAN_SYMBOLIZER_PATH"] = "/usr/bin/llvm-symbolizer"
    e.pop("JWT_CRYPTO", None)
    return e


def load_known():
    out = {}
    if os.path.exists(KNOWN):
        for line in open(KNOWN):
            m = re.match(r"KNOWN-FINDING:\s+property=(\S+)\s+key=(\S+)\s*(.*)", line.strip())
            if m:
                out[(m.group(1), m.group(2))] = m.group(3)
    return out


REPO_FRAME = re.compile(r"#\d+ 0x[0-9a-f]+ in (\S+) (/repo/(?:libjwt|tools)/\S+?):\d+")
ANY_FRAME = re.compile(r"#\d+ 0x[0-9a-f]+ in (\S+)")


def crash_key(kind, errfile):
    """Derive a finding key from a sanitizer report: error class + innermost libjwt function."""
    txt = ""
    try:
        txt = open(errfile, errors="replace").read()
    except Exception:
        pass
    cls = None
    m = re.search(r"ERROR: AddressSanitizer: (\S+)", txt)
    if m:
        cls = "asan:" + ("memory-fault" if m.group(1) in ("SEGV", "BUS", "FPE", "ILL") else m.group(1))
    else:
        m = re.search(r"runtime error: ([^\n]*)", txt)
        if m:
            msg = re.sub(r"0x[0-9a-f]+", "ADDR", m.group(1))
            msg = re.sub(r"\d+", "N", msg)
            cls = "ubsan:" + "-".join(msg.split()[:6])
        else:
            m = re.search(r"ERROR: LeakSanitizer", txt)
            if m:
                cls = "lsan:leak"
    if cls is None:
        return kind, txt[-1500:]
    m = REPO_FRAME.search(txt)
    fn = None
    if m:
        fn = m.group(1)
    else:
        m = ANY_FRAME.search(txt)
        if m:
            fn = m.group(1)
    key = "%s|%s|%s" % (kind, cls, fn or "?")
    return key.replace(" ", "_"), txt[:3000]


class Run:
    """One harness invocation spec, sharded over processes."""

    def __init__(self, spec, tier, root, workdir, pid_tag, deadline, prop):
        self.spec = spec
        self.tier = tier
        self.harness = spec["harness"]
        self.variant = spec.get("variant", "asan")
        self.bin = os.path.join(root, self.variant, "bin", self.harness)
        # a harness may be a script speaking the same protocol (process-level checks)
        self.cmd0 = ["python3", os.path.join(VERIF, spec["script"])] if spec.get("script") else [self.bin]
        self.args = ["--tier", tier, "--prop", spec.get("prop", prop)] + [str(a) for a in spec.get("args", [])]
        self.env = base_env()
        self.env.update(spec.get("env", {}))
        self.nshards = spec.get("shards", NCPU)
        self.workdir = workdir
        self.tag = pid_tag
        self.deadline = deadline
        self.lines = []
        self.outs = []

    def start(self):
        self.procs = []
        for i in range(self.nshards):
            out = os.path.join(self.workdir, "%s.s%d.jsonl" % (self.tag, i))
            self.outs.append(out)
            cmd = self.cmd0 + self.args + ["--shard", "%d/%d" % (i, self.nshards), "--out", out,
                                            "--deadline", "%.0f" % self.deadline]
            if "case_timeout" in self.spec:
                cmd += ["--case-timeout", str(self.spec["case_timeout"])]
            self.procs.append(subprocess.Popen(cmd, env=self.env, stdout=subprocess.DEVNULL,
                                               stderr=subprocess.DEVNULL, cwd=self.workdir))

    def wait(self):
        rc = 0
        for p in self.procs:
            p.wait()
            if p.returncode != 0:
                rc = p.returncode
        for out in self.outs:
            if os.path.exists(out):
                for line in open(out, errors="replace"):
                    line = line.strip()
                    if not line:
                        continue
                    try:
                        self.lines.append(json.loads(line))
                    except Exception:
                        self.lines.append({"type": "garbage", "text": line[:300]})
        return rc

    def merge_count(self, suffix):
        files = [o + suffix for o in self.outs if os.path.exists(o + suffix)]
        if not files:
            return 0, 0
        r = subprocess.run(self.cmd0 + ["--merge-count"] + files, env=self.env, capture_output=True, text=True)
        try:
            a, b = r.stdout.split()
            return int(a), int(b)
        except Exception:
            return 0, 1

    def replay(self, idx, timeout=600, history=None):
        """Run one case alone -- or, with history="I/N", after the earlier cases of shard I of N in one process (a failure that
        needs what an earlier case left behind).  Returns (lines, returncode, stderr_text)."""
        out = os.path.join(self.workdir, "%s.replay.%d.jsonl" % (self.tag, idx))
        if os.path.exists(out):
            os.unlink(out)
        cmd = self.cmd0 + self.args + ["--replay", str(idx), "--out", out]
        if history:
            cmd += ["--replay-history", history]
            timeout = 3600
        try:
            r = subprocess.run(cmd, env=self.env, capture_output=True, text=True, errors="replace",
                               timeout=timeout, cwd=self.workdir)
            rc, err = r.returncode, r.stderr
        except subprocess.TimeoutExpired as ex:
            rc, err = -14, (ex.stderr or b"").decode(errors="replace") if isinstance(ex.stderr, bytes) else (ex.stderr or "")
        lines = []
        if os.path.exists(out):
            for line in open(out, errors="replace"):
                try:
                    lines.append(json.loads(line))
                except Exception:
                    pass
        return lines, rc, err


def replay_confirms(run, v, history=None):
    """Replay-before-report: does case v['idx'] alone (or after its shard's earlier cases) reproduce a violation with the same key?"""
    lines, rc, err = run.replay(v["idx"], history=history)
    if v["kind"] in ("crash", "timeout"):
        if rc == 0:
            return False, "replay exited normally"
        errf = os.path.join(run.workdir, "replay.err")
        open(errf, "w").write(err)
        k, _ = crash_key("timeout" if rc in (-14,) else "crash", errf)
        if v["kind"] == "timeout":
            return (rc in (-14, -9)), "rc=%d" % rc
        return k == v["key"], "replay key %s" % k
    for l in lines:
        if l.get("type") == "violation" and l.get("key") == v["key"]:
            return True, ""
    return False, "no violation with that key on replay (rc=%d)" % rc


def do_check(pid, tier):
    P = PROPS[pid]
    t0 = time.time()
    seed = int(os.environ.get("VERIF_SEED", "0") or 0)
    budget = P.get("budget_s", {}).get(tier, 900 if tier == "quick" else 3000)
    deadline = t0 + budget
    variants = sorted({r.get("variant", "asan") for r in P["runs"](tier)})
    need_tools = P.get("tools", False)
    root = build.ensure(variants, need_tools)
    workdir = os.path.join(VERIF, "work", "%s-%s-%d" % (pid, tier, os.getpid()))
    shutil.rmtree(workdir, ignore_errors=True)
    os.makedirs(workdir)
    # scratch directories kept for inspection after an alarm are dropped after two hours
    for d in os.listdir(os.path.join(VERIF, "work")):
        pth = os.path.join(VERIF, "work", d)
        try:
            if pth != workdir and time.time() - os.path.getmtime(pth) > 7200:
                shutil.rmtree(pth, ignore_errors=True)
        except OSError:
            pass
    known = load_known()
    os.makedirs(os.path.join(VERIF, "evidence"), exist_ok=True)
    os.makedirs(os.path.join(VERIF, "replays", pid), exist_ok=True)

    runs = []
    specs = P["runs"](tier)
    for k, spec in enumerate(specs):
        spec = dict(spec)
        if spec.get("tools"):
            spec.setdefault("env", {})["VERIF_TOOLS"] = os.path.join(root, "tools")
        runs.append(Run(spec, tier, root, workdir, "r%d" % k, deadline, pid))
    # run sequentially (each run already uses all cores) unless marked light
    for r in runs:
        r.start()
        r.wait()

    # ---- aggregate
    tot = dict(cases_total=0, executed=0, crashes=0, violations=0)
    counters = {}
    samples = []
    notes = []
    caps = []
    fatal = []
    viols = []
    saturated = 0
    distinct_outcomes = 0
    distinct_nontrivial = 0
    for r in runs:
        summaries = [l for l in r.lines if l.get("type") == "summary"]
        if len(summaries) != r.nshards:
            fatal.append("%s: %d of %d shards reported" % (r.harness, len(summaries), r.nshards))
        ct = 0
        for s in summaries:
            ct = max(ct, s["cases_total"])
            tot["executed"] += s["executed"]
            tot["crashes"] += s["crashes"]
            tot["violations"] += s["violations"]
            saturated |= s["saturated"]
            if s["deadline_hit"]:
                caps.append("%s shard %d stopped by deadline at case %d" % (r.harness, s["shard"], s["deadline_idx"]))
            for k, v in s["counters"].items():
                if k.startswith("="):      # same value in every shard: merge by max, not by sum
                    counters[k[1:]] = max(counters.get(k[1:], 0), v)
                else:
                    counters[k] = counters.get(k, 0) + v
            for sm in s["samples"]:
                if len(samples) < 12:
                    samples.append({"harness": r.harness, "args": r.spec.get("args", []), "idx": sm["idx"],
                                    "case": sm["desc"], "outcome": sm["outcome"], "_run": r})
            for n in s["notes"]:
                if n not in notes:
                    notes.append(n)
        tot["cases_total"] += ct
        for l in r.lines:
            if l.get("type") == "fatal":
                fatal.append("%s shard %s: %s" % (r.harness, l.get("shard"), l.get("why")))
            if l.get("type") == "garbage":
                fatal.append("%s: unparsable output %r" % (r.harness, l.get("text")))
            if l.get("type") == "violation":
                v = dict(l)
                v["run"] = r
                v["kind"] = v["key"] if v["key"] in ("crash", "timeout") else "logic"
                if v["kind"] == "crash":
                    v["key"], v["report"] = crash_key("crash", v.get("errfile", ""))
                viols.append(v)
        a, sa = r.merge_count(".oc.bin")
        b, sb = r.merge_count(".nt.bin")
        distinct_outcomes += a
        distinct_nontrivial += b
        saturated |= sa | sb

    # ---- determinism: replay a few sampled cases and compare outcome hashes
    nondeterminism = []
    checked = 0
    for sm in samples[:3]:
        r = sm["_run"]
        lines, rc, err = r.replay(sm["idx"])
        got = [l for l in lines if l.get("type") == "replayed"]
        checked += 1
        if not got or got[0]["outcome"] != sm["outcome"] or got[0]["desc"] != sm["case"]:
            nondeterminism.append("case %d of %s: run outcome %s, replay %s" %
                                  (sm["idx"], r.harness, sm["outcome"], got[0]["outcome"] if got else "none (rc=%d)" % rc))
    for sm in samples:
        sm.pop("_run", None)

    # ---- group violations by key; replay before report
    by_key = {}
    for v in viols:
        by_key.setdefault(v["key"], []).append(v)
    new_findings = []
    known_hits = []
    flaky = []
    for key, vs in sorted(by_key.items()):
        vs.sort(key=lambda v: v["idx"])
        v = vs[0]
        ok, why = replay_confirms(v["run"], v)
        if not ok and len(vs) > 1:
            v = vs[1]
            ok, why = replay_confirms(v["run"], v)
        history = None
        if not ok and v["kind"] == "logic" and not v["run"].spec.get("script"):
            # not reproduced alone: the failure may need what an earlier case of the same worker left behind in the library
            # (process-wide or per-thread state).  Re-run that shard's cases up to this one in one process.
            v = vs[0]
            history = "%d/%d" % (v["idx"] % v["run"].nshards, v["run"].nshards)
            ok, why = replay_confirms(v["run"], v, history=history)
        if not ok:
            flaky.append("%s (case %d): %s" % (key, v["idx"], why))
            continue
        rec = {"property": pid, "tier": tier, "harness": v["run"].harness, "variant": v["run"].variant, "script": v["run"].spec.get("script"),
               "args": v["run"].args, "env": v["run"].spec.get("env", {}), "idx": v["idx"], "key": key,
               "case": v["desc"], "detail": v.get("detail", ""), "instances": len(vs),
               "report": v.get("report", "")[:3000]}
        if history:
            rec["history"] = history
            rec["note"] = "reproduces only after the earlier cases of the same worker (shard %s): state left behind in the library between cases" % history
        if (pid, key) in known:
            known_hits.append((key, known[(pid, key)], len(vs)))
            continue
        safe = re.sub(r"[^A-Za-z0-9_.-]+", "_", key)[:80]
        path = os.path.join(workdir if os.environ.get("VERIF_NO_EVIDENCE") else os.path.join(VERIF, "replays", pid), "%s.json" % safe)
        json.dump(rec, open(path, "w"), indent=1)
        new_findings.append((key, path, len(vs), v))

    wall = time.time() - t0
    evals = counters.get("evaluations", tot["executed"])
    level = P["level"]
    cov = {
        "evaluations": int(evals),
        "distinct_nontrivial": int(counters.get("nontrivial", distinct_nontrivial)),
        "rule": P["rule"],
        "samples": samples[:8],
        "exhaustive": (not caps) and not fatal and not saturated,
        "cases_enumerated": tot["cases_total"],
        "cases_executed": tot["executed"],
        "distinct_outcomes": distinct_outcomes,
        "bound_completed": P.get("bound", {}).get(tier, ""),
        "caps_hit": caps,
        "counters": counters,
        "crashes_isolated": tot["crashes"],
        "determinism_replays": checked,
        "known_findings_seen": [k for k, _, _ in known_hits],
        "notes": notes,
    }
    if level == "model_checking":
        cov["states"] = int(counters.get("states", 0))
        cov["transitions"] = int(counters.get("transitions", 0))
        cov["traces_validated_against_impl"] = int(counters.get("traces", tot["executed"]))
    ev = {"property_id": pid, "tier": tier, "seed": seed, "level": level, "coverage": cov,
          "assumptions": P.get("assumptions", []), "wall_s": round(wall, 2),
          "violations": len(new_findings)}
    if not os.environ.get("VERIF_NO_EVIDENCE"):
        json.dump(ev, open(os.path.join(VERIF, "evidence", "%s.json" % pid), "w"), indent=1)

    log("%s %s: cases=%d executed=%d evaluations=%d distinct_outcomes=%d nontrivial=%d crashes=%d wall=%.1fs%s" %
        (pid, tier, tot["cases_total"], tot["executed"], evals, distinct_outcomes, cov["distinct_nontrivial"],
         tot["crashes"], wall, (" CAPS:" + "; ".join(caps)) if caps else ""))
    for k, v in sorted(counters.items()):
        log("   counter %s = %d" % (k, v))
    for key, text, n in known_hits:
        log("KNOWN-FINDING: property=%s key=%s %s (instances this run: %d)" % (pid, key, text, n))

    keep = os.environ.get("VERIF_KEEP")
    rc = 0
    if fatal or nondeterminism or flaky:
        for f in fatal:
            log("HARNESS-ERROR: " + f)
        for f in nondeterminism:
            log("HARNESS-ERROR: nondeterminism: " + f)
        for f in flaky:
            log("HARNESS-ERROR: violation did not reproduce on replay: " + f)
        rc = 2
        keep = keep or "1"
    if not fatal and distinct_outcomes < 2 and not P.get("single_outcome_ok"):
        log("HARNESS-ERROR: vacuous exploration: %d distinct outcome(s) from %d executions" %
            (distinct_outcomes, tot["executed"]))
        rc = 2
    for key, path, n, v in new_findings:
        log("VIOLATION property=%s replay=%s" % (pid, path))
        log("   key=%s instances=%d case=%s" % (key, n, v["desc"][:300]))
        log("   detail=%s" % (v.get("detail", "")[:300]))
        rc = 1 if rc != 2 else rc
    if new_findings and rc == 2:
        rc = 1
    if not keep:
        shutil.rmtree(workdir, ignore_errors=True)
    else:
        log("work dir kept: " + workdir)
    return rc


def do_replay(pid, path):
    rec = json.load(open(path))
    root = build.ensure([rec["variant"]], PROPS[pid].get("tools", False))
    workdir = os.path.join(VERIF, "work", "%s-replay-%d" % (pid, os.getpid()))
    shutil.rmtree(workdir, ignore_errors=True)
    os.makedirs(workdir)
    spec = {"harness": rec["harness"], "variant": rec["variant"], "env": rec.get("env", {})}
    if rec.get("script"):
        spec["script"] = rec["script"]
    r = Run(spec, rec["tier"], root, workdir, "rp", 0, pid)
    r.args = rec["args"]
    if PROPS[pid].get("tools"):
        r.env["VERIF_TOOLS"] = os.path.join(root, "tools")
    v = {"idx": rec["idx"], "key": rec["key"],
         "kind": "crash" if rec["key"].startswith("crash") else ("timeout" if rec["key"] == "timeout" else "logic")}
    lines, rc, err = r.replay(rec["idx"], history=rec.get("history"))
    for l in lines:
        log(json.dumps(l))
    if err.strip():
        log(err[-3000:])
    ok, why = replay_confirms(r, v, history=rec.get("history"))
    shutil.rmtree(workdir, ignore_errors=True)
    if ok:
        log("VIOLATION property=%s replay=%s" % (pid, path))
        return 1
    log("replay: violation %s not reproduced (%s)" % (rec["key"], why))
    return 0


def main():
    a = sys.argv[1:]
    if not a or a[0] not in PROPS:
        log("usage: check.py <ID> --tier quick|thorough | --replay <path>; ids: " + " ".join(sorted(PROPS)))
        return 2
    pid = a[0]
    tier = os.environ.get("VERIF_TIER", "quick")
    replay = None
    i = 1
    while i < len(a):
        if a[i] == "--tier":
            tier = a[i + 1]; i += 1
        elif a[i] == "--replay":
            replay = a[i + 1]; i += 1
        i += 1
    if replay:
        return do_replay(pid, replay)
    return do_check(pid, tier)


if __name__ == "__main__":
    sys.exit(main())
