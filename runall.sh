#!/bin/bash
# run every registered check at the given tier (default quick); print one line per check
tier=${1:-quick}
for p in C01 C02 C03 C04 C05 C06 C07 C08 C09 C10 C11 C12 C13 C14 C15 C16 C17 C18 C19 C20; do
  out=$(python3 /verif/check.py $p --tier $tier 2>&1); rc=$?
  echo "$p rc=$rc $(echo "$out" | head -1 | cut -c1-150) $(echo "$out" | grep -c '^VIOLATION') violations, $(echo "$out" | grep -c '^KNOWN-FINDING') known"
done
