"""Property table: which harness runs decide which property, at which tier."""

PROPS = {}
NOT_APPLICABLE = {}
HOOK_COMMITS = []

# ---------------------------------------------------------------- C11
PROPS["C11"] = dict(
    level="exploration",
    technique="bounded-exhaustive enumeration of the real code against an independent reference (explicit-state, no sampling)",
    level_text=("every input of the property's small domains (all <=3-byte strings, all 4-character groups) is enumerated "
                "completely and compared with an independent RFC 4648 reference, under ASan/UBSan for the buffer clause; "
                "this is the property's own quantifier, so exhaustive enumeration is the right level"),
    level_note="trusts ref_b64 (60 lines, /verif/engine/ref_b64.h) and ASan/UBSan instrumentation of the library TUs",
    rule=("complete enumeration: encode every byte string of length 0-3 and lengths 4-6 over 12 byte classes; "
          "decode every string of length 1-3 over bytes 1..255, every 4-character group over the tier's alphabet "
          "(quick: both alphabets, '=', range neighbours = 94 chars; thorough: all 255 byte values), multi-group "
          "strings over group classes x tails, one string per length 0..66000 (quick: selected ranges) under ASan, "
          "and oct JWK k members through the public API; each result compared with an independent RFC 4648 "
          "reference.  evaluations = library calls judged; non-trivial = inputs the library accepted/produced "
          "whose value was compared byte-for-byte with the reference (all inputs are distinct by construction)."),
    runs=lambda tier: ([dict(harness="b64", variant="asan", args=["--param", 0])] +
                       ([dict(harness="b64", variant="plain", args=["--param", 1])] if tier == "thorough" else [])),
    bound=dict(quick="all <=3-byte inputs; 96^4 groups", thorough="all <=3-byte inputs; 255^4 groups; every length 0..66000"),
    assumptions=["ASan/UBSan detect out-of-bounds accesses of the instrumented library code",
                 "the 255^4 sweep of the thorough tier runs on the uninstrumented gcc -O2 build (values only); "
                 "buffer arithmetic is covered by the ASan runs"],
    budget_s=dict(quick=600, thorough=2400),
)
