"""Property table: which harness runs decide which property, at which tier."""

PROPS = {}
NOT_APPLICABLE = {}
HOOK_COMMITS = []

# ---------------------------------------------------------------- C11
PROPS["C11"] = dict(
    level="exploration",
    technique="bounded-exhaustive enumeration of the real code against an independent reference (explicit-state, no sampling)",
    level_text=("every input of the property's small domains (all <=3-byte strings, all 4-character groups) is enumerated "
                "completely and compared with an independent RFC 4648 reference, under ASan/UBSan for the buffer clause; "
                "this is the property's own quantifier, so exhaustive enumeration is the right level"),
    level_note="trusts ref_b64 (60 lines, /verif/engine/ref_b64.h) and ASan/UBSan instrumentation of the library TUs",
    rule=("complete enumeration: encode every byte string of length 0-3 and lengths 4-6 over 12 byte classes; "
          "decode every string of length 1-3 over bytes 1..255, every 4-character group over the tier's alphabet "
          "(quick: both alphabets, '=', range neighbours = 94 chars; thorough: all 255 byte values), multi-group "
          "strings over group classes x tails, one string per length 0..66000 (quick: selected ranges) under ASan, "
          "and oct JWK k members through the public API; each result compared with an independent RFC 4648 "
          "reference.  evaluations = library calls judged; non-trivial = inputs the library accepted/produced "
          "whose value was compared byte-for-byte with the reference (all inputs are distinct by construction)."),
    runs=lambda tier: ([dict(harness="b64", variant="asan", args=["--param", 0])] +
                       ([dict(harness="b64", variant="plain", args=["--param", 1])] if tier == "thorough" else [])),
    bound=dict(quick="all <=3-byte inputs; 96^4 groups", thorough="all <=3-byte inputs; 255^4 groups; every length 0..66000"),
    assumptions=["ASan/UBSan detect out-of-bounds accesses of the instrumented library code",
                 "the 255^4 sweep of the thorough tier runs on the uninstrumented gcc -O2 build (values only); "
                 "buffer arithmetic is covered by the ASan runs"],
    budget_s=dict(quick=600, thorough=2400),
)

# ---------------------------------------------------------------- C02
def _both_providers(harness, **kw):
    return lambda tier: [dict(harness=harness, args=["--param", 0], **kw), dict(harness=harness, args=["--param", 1], **kw)]

PROPS["C02"] = dict(
    level="exploration",
    technique="exhaustive enumeration of the finite configuration x key x header x route x signature matrix on the real code against a reference decision function",
    level_text=("the property's quantifier is a finite matrix; every cell (configured alg x key x key alg attribute x header alg x "
                "route x signature kind, checker and builder side, both providers) is executed on the real library and compared "
                "with ref_policy; acceptance is judged one-directionally (accepted => permitted)"),
    level_note="trusts ref_policy/ref_crypto in the harness (libcrypto primitives on the harness's own PEM keys) and ASan for the crash clause",
    rule=("cells = configured alg (16) x key (absent + pool) x JWK alg attribute x header alg text (33 incl. case variants, prefix, "
          "missing, non-string) x route (setkey, callback key+alg, callback key only, callback alg only, setkey+no-op callback) x "
          "signature kind (empty, garbage, valid for the header's alg under the real key, HMAC with empty key, HMAC with the "
          "public PEM) plus builder cells; a cell is non-trivial when the library accepted/produced a token and the reference "
          "confirmed pinned alg, header text, key family/size and signature; distinct by cell descriptor"),
    runs=_both_providers("policy"),
    bound=dict(quick="6 keys x 5-6 attributes, all algs/headers/routes/signature kinds", thorough="17 keys x 17 attributes, all algs/headers/routes/signature kinds"),
    assumptions=["attacker-computable keys are the empty key and the public PEM text; other derived keys (DER, raw n) are not enumerated"],
    budget_s=dict(quick=600, thorough=3000),
)

# ---------------------------------------------------------------- C03
PROPS["C03"] = dict(
    level="exploration",
    technique="exhaustive enumeration of checker/builder configurations x token shapes on the real code against the statement's decision table",
    level_text=("every checker/builder configuration of the quantifier (key absent/present, alg attribute, explicit alg, five "
                "routes incl. callbacks that set key, alg or nothing) x every token shape (header alg spellings, missing/non-string "
                "alg, 2/3/4 segments, empty and non-empty third segment) is executed; acceptance/production is compared with the "
                "statement's two clauses"),
    level_note="trusts the harness's effective-configuration model (documented setkey table) and ref_token",
    rule=("cells = key (absent + pool) x alg attribute x configured alg (7) x route (5) x header shape (18) x tail shape (13) for the "
          "checker, key x private/public x attribute (absent, matching, unknown) x alg x route for the builder; non-trivial = the "
          "library accepted/produced a token and the clause for that configuration permits it; distinct by cell descriptor"),
    runs=_both_providers("policy"),
    bound=dict(quick="4 keys, all routes/headers/tails", thorough="8 keys, all routes/headers/tails"),
    assumptions=["a callback that removes a configured key is outside the alphabet (the application withdrawing its own key)"],
    budget_s=dict(quick=600, thorough=1800),
)

# ---------------------------------------------------------------- C09
PROPS["C09"] = dict(
    level="exploration",
    technique="exhaustive enumeration of key sizes/curves x algorithms x {generate, verify} x providers on the real code",
    level_text=("every oct length 1-160 x HS256/384/512, every pool RSA size (512...4096 incl. 2047/2048/2056, e=3, 33-bit e, RSA-PSS) "
                "x RS*/PS*, every curve x every ES*, Ed25519/Ed448/X25519 x EdDSA, plus every cross-family pair, for generate and "
                "for verify of a token made by the reference with the weak key itself; both providers"),
    level_note="the verify token is signed by ref_crypto with the same weak key, so a loosened floor shows up as an acceptance",
    rule=("one cell per (key, algorithm); each cell runs generate and verify; non-trivial = a key at/above the floor that generated "
          "a token which the reference verifies, or whose reference-signed token the library accepts; distinct by cell descriptor"),
    runs=_both_providers("policy", shards=8),
    bound=dict(quick="all cells", thorough="all cells"),
    assumptions=["oct length 0 has no JWK representation (an empty k is an import error) and is covered by C07",
                 "secp256k1/ES256K on GnuTLS: refusal only (not compiled in that provider), no completeness demand"],
    budget_s=dict(quick=600, thorough=900),
)

# ---------------------------------------------------------------- C04
PROPS["C04"] = dict(
    level="model_checking",
    technique="explicit-state BFS over checker configuration histories with a lock-step reference model; probe battery x clocks in every state on the real code",
    level_text=("all 324 reachable states of the claim-configuration machine (closure of the frontier under 21 operations incl. "
                "invalid calls) are reached on the real checker by replaying the history that reaches them; every transition's "
                "return code and observers are compared with the model, and in every state a battery of tokens around each "
                "boundary, each JSON type and each string relation is verified at three clock values, unsigned and HS256-signed, "
                "and compared with ref_claims in both directions"),
    level_note="model = 60 lines of C in harness/claims.c (model_step, ref_claims); every explored history is an implementation trace",
    rule=("states = reachable model states; transitions = state x operation; per state a battery of probe tokens (quick: single-claim "
          "variations from an all-pass and an all-fail baseline; thorough: plus all pairs of claim shapes) x 3 clocks x "
          "{unsigned/key-less, HS256/keyed}; evaluations = jwt_checker_verify calls compared with the model; a case is non-trivial "
          "when it ran a battery on a replayed history (each is distinct by descriptor)"),
    runs=lambda tier: [dict(harness="claims", args=["--param", 0])] + ([dict(harness="claims", args=["--param", 1])] if tier == "thorough" else []),
    bound=dict(quick="all 324 states / 6804 transitions (frontier closed); reduced battery", thorough="all states/transitions; full pair battery; both providers"),
    assumptions=["leeways are drawn from {-1, 0, 5, 2^40} and expected strings from {a, b}: other values are not enumerated",
                 "payloads that jansson itself refuses (escaped NUL) carry no acceptance demand"],
    budget_s=dict(quick=600, thorough=1800),
)

# ---------------------------------------------------------------- C19
PROPS["C19"] = dict(
    level="model_checking",
    technique="deviation-bounded exhaustive enumeration of callback programs (all programs up to length L over 17 token-mutating calls) on the real checker, differential oracle",
    level_text=("every callback program of length <= 2 (quick) / <= 3 (thorough) over 17 header/claim set/replace/delete/merge/get "
                "calls is installed on the real checker for every claim-check configuration (8) x keyed/key-less x 9 payloads x 3 "
                "signature kinds; the verdict must equal that of the same checker without a callback; non-zero returns must "
                "always reject"),
    level_note="differential oracle with no expected values: program vs no callback on identically configured fresh checkers",
    rule=("states = callback programs; transitions = (program, configuration, token) cells each executing two real verifications; "
          "a case is non-trivial when the callback actually ran (token parsed); distinct by descriptor"),
    runs=lambda tier: [dict(harness="claims", args=["--param", 0])] + ([dict(harness="claims", args=["--param", 1])] if tier == "thorough" else []),
    bound=dict(quick="all programs of length <= 2 (307)", thorough="all programs of length <= 3 (5220), both providers"),
    assumptions=["callbacks that change config->key/alg are C02's routes; here the config is left untouched"],
    budget_s=dict(quick=600, thorough=2400),
)
