"""Property table: which harness runs decide which property, at which tier."""

PROPS = {}
NOT_APPLICABLE = {}
HOOK_COMMITS = []

# ---------------------------------------------------------------- C11
PROPS["C11"] = dict(
    level="exploration",
    technique="bounded-exhaustive enumeration of the real code against an independent reference (explicit-state, no sampling)",
    level_text=("every input of the property's small domains (all <=3-byte strings, all 4-character groups) is enumerated "
                "completely and compared with an independent RFC 4648 reference, under ASan/UBSan for the buffer clause; "
                "this is the property's own quantifier, so exhaustive enumeration is the right level; an HS256 token through the public API whose signature text is followed by 1..1024 bytes of nine kinds"),
    level_note="trusts ref_b64 (60 lines, /verif/engine/ref_b64.h) and ASan/UBSan instrumentation of the library TUs",
    rule=("complete enumeration: encode every byte string of length 0-3 and lengths 4-6 over 12 byte classes; "
          "decode every string of length 1-3 over bytes 1..255, every 4-character group over the tier's alphabet "
          "(quick: both alphabets, '=', range neighbours = 94 chars; thorough: all 255 byte values), multi-group "
          "strings over group classes x tails, one string per length 0..66000 (quick: selected ranges) under ASan, "
          "and oct JWK k members through the public API; each result compared with an independent RFC 4648 "
          "reference.  evaluations = library calls judged; non-trivial = inputs the library accepted/produced "
          "whose value was compared byte-for-byte with the reference (all inputs are distinct by construction)."),
    runs=lambda tier: ([dict(harness="b64", variant="asan", args=["--param", 0])] +
                       ([dict(harness="b64", variant="plain", args=["--param", 1])] if tier == "thorough" else [])),
    bound=dict(quick="all <=3-byte inputs; 96^4 groups", thorough="all <=3-byte inputs; 255^4 groups; every length 0..66000"),
    assumptions=["ASan/UBSan detect out-of-bounds accesses of the instrumented library code",
                 "the 255^4 sweep of the thorough tier runs on the uninstrumented gcc -O2 build (values only); "
                 "buffer arithmetic is covered by the ASan runs"],
    budget_s=dict(quick=600, thorough=2400),
)

# ---------------------------------------------------------------- C02
def _both_providers(harness, **kw):
    return lambda tier: [dict(harness=harness, args=["--param", 0], **kw), dict(harness=harness, args=["--param", 1], **kw)]

PROPS["C02"] = dict(
    level="exploration",
    technique="exhaustive enumeration of the finite configuration x key x header x route x signature matrix on the real code against a reference decision function",
    level_text=("the property's quantifier is a finite matrix; every cell (configured alg x key x key alg attribute x header alg x "
                "route x signature kind, checker and builder side, both providers) is executed on the real library and compared "
                "with ref_policy; acceptance is judged one-directionally (accepted => permitted); header names a number parser would accept (HS 256, HS+256, HS0256 ...) and key's-own-algorithm signatures under header names that are no algorithm; known names followed by 256 / 512 more characters"),
    level_note="trusts ref_policy/ref_crypto in the harness (libcrypto primitives on the harness's own PEM keys) and ASan for the crash clause",
    rule=("cells = configured alg (16) x key (absent + pool) x JWK alg attribute x header alg text (33 incl. case variants, prefix, "
          "missing, non-string) x route (setkey, callback key+alg, callback key only, callback alg only, setkey+no-op callback) x "
          "signature kind (empty, garbage, valid for the header's alg under the real key, HMAC with empty key, HMAC with the "
          "public PEM) plus builder cells; a cell is non-trivial when the library accepted/produced a token and the reference "
          "confirmed pinned alg, header text, key family/size and signature; distinct by cell descriptor"),
    runs=_both_providers("policy"),
    bound=dict(quick="6 keys x 5-6 attributes, all algs/headers/routes/signature kinds", thorough="17 keys x 17 attributes, all algs/headers/routes/signature kinds"),
    assumptions=["attacker-computable keys are the empty key and the public PEM text; other derived keys (DER, raw n) are not enumerated"],
    budget_s=dict(quick=600, thorough=3000),
)

# ---------------------------------------------------------------- C03
PROPS["C03"] = dict(
    level="exploration",
    technique="exhaustive enumeration of checker/builder configurations x token shapes on the real code against the statement's decision table",
    level_text=("every checker/builder configuration of the quantifier (key absent/present, alg attribute, explicit alg, five "
                "routes incl. callbacks that set key, alg or nothing) x every token shape (header alg spellings, missing/non-string "
                "alg, 2/3/4 segments, empty and non-empty third segment) is executed; acceptance/production is compared with the "
                "statement's two clauses"),
    level_note="trusts the harness's effective-configuration model (documented setkey table) and ref_token",
    rule=("cells = key (absent + pool) x alg attribute x configured alg (7) x route (5) x header shape (18) x tail shape (13) for the "
          "checker, key x private/public x attribute (absent, matching, unknown) x alg x route for the builder; non-trivial = the "
          "library accepted/produced a token and the clause for that configuration permits it; distinct by cell descriptor"),
    runs=_both_providers("policy"),
    bound=dict(quick="4 keys, all routes/headers/tails", thorough="8 keys, all routes/headers/tails"),
    assumptions=["a callback that removes a configured key is outside the alphabet (the application withdrawing its own key)"],
    budget_s=dict(quick=600, thorough=1800),
)

# ---------------------------------------------------------------- C09
PROPS["C09"] = dict(
    level="exploration",
    technique="exhaustive enumeration of key sizes/curves x algorithms x {generate, verify} x providers on the real code",
    level_text=("every oct length 1-160 x HS256/384/512, every pool RSA size (512...4096 incl. 2047/2048/2056, e=3, 33-bit e, RSA-PSS) "
                "x RS*/PS*, every curve x every ES*, Ed25519/Ed448/X25519 x EdDSA, plus every cross-family pair, for generate and "
                "for verify of a token made by the reference with the weak key itself; both providers; oct keys of every length are also presented with k padded, over-padded and followed by = plus further text (the floor is judged on the bytes the key really has); seven EC keys on curves outside JOSE (brainpool 256/320/384/512, secp224r1, prime192v1) against every ES algorithm; every RSA pool key also with 1, 2 and 129 zero octets in front of n; every key also with its algorithm named in the JWK (setkey(JWT_ALG_NONE, key))"),
    level_note="the verify token is signed by ref_crypto with the same weak key, so a loosened floor shows up as an acceptance",
    rule=("one cell per (key, algorithm); each cell runs generate and verify; non-trivial = a key at/above the floor that generated "
          "a token which the reference verifies, or whose reference-signed token the library accepts; distinct by cell descriptor"),
    runs=_both_providers("policy", shards=8),
    bound=dict(quick="all cells", thorough="all cells"),
    assumptions=["oct length 0 has no JWK representation (an empty k is an import error) and is covered by C07",
                 "secp256k1/ES256K on GnuTLS: refusal only (not compiled in that provider), no completeness demand"],
    budget_s=dict(quick=600, thorough=900),
)

# ---------------------------------------------------------------- C04
PROPS["C04"] = dict(
    level="model_checking",
    technique="explicit-state BFS over checker configuration histories with a lock-step reference model; probe battery x clocks in every state on the real code",
    level_text=("all 1 280 reachable states of the claim-configuration machine (closure of the frontier under 26 operations incl. "
                "invalid calls; leeways -100, -1, 0, 5, 2^40; three expected values per string claim incl. a non-ASCII one) are reached on the real checker by replaying the history that reaches them; every transition's "
                "return code and observers are compared with the model, and in every state a battery of tokens around each "
                "boundary, each JSON type and each string relation is verified at three clock values, unsigned and HS256-signed, "
                "and compared with ref_claims in both directions; a refused re-pin (claim_set(ISS, non-UTF-8)) is an operation too: afterwards the earlier expectation or a fail-closed check is allowed, never none"),
    level_note="model = 60 lines of C in harness/claims.c (model_step, ref_claims); every explored history is an implementation trace",
    rule=("states = reachable model states; transitions = state x operation; per state a battery of probe tokens (quick: single-claim "
          "variations from an all-pass and an all-fail baseline; thorough: plus all pairs of claim shapes) x 3 clocks x "
          "{unsigned/key-less, HS256/keyed}; evaluations = jwt_checker_verify calls compared with the model; a case is non-trivial "
          "when it ran a battery on a replayed history (each is distinct by descriptor)"),
    runs=lambda tier: [dict(harness="claims", args=["--param", 0])] + ([dict(harness="claims", args=["--param", 1])] if tier == "thorough" else []),
    bound=dict(quick="all 1 280 states / 33 280 transitions (frontier closed); reduced battery", thorough="all states/transitions; full pair battery; both providers"),
    assumptions=["leeways are drawn from {-100, -1, 0, 5, 2^40} and expected strings from three values: other values are not enumerated",
                 "payloads that jansson itself refuses (escaped NUL) carry no acceptance demand"],
    budget_s=dict(quick=600, thorough=1800),
)

# ---------------------------------------------------------------- C19
PROPS["C19"] = dict(
    level="model_checking",
    technique="deviation-bounded exhaustive enumeration of callback programs (all programs up to length L over 17 token-mutating calls, plus configuration edits in vetoing programs) on the real checker, differential oracle",
    level_text=("every callback program of length <= 2 (quick) / <= 4 (thorough) over 17 header/claim set/replace/delete/merge/get "
                "calls is installed on the real checker for every claim-check configuration (8) x keyed/key-less x 9 payloads x 3 "
                "signature kinds; the verdict must equal that of the same checker without a callback; vetoing programs (return 1, -1, "
                "2, 256, INT_MIN) of length <= 2 (thorough <= 3) over 20 operations -- the 17 plus three edits of config->key/alg, "
                "admissible ones included -- must always reject; accepting programs that first select the key the baseline has are "
                "compared with the keyed baseline; payloads include null and wrongly typed exp/nbf/iss/sub/aud; callback operations the library refuses (NULL value, empty name, malformed JSON)"),
    level_note="differential oracle with no expected values: program vs no callback on identically configured fresh checkers",
    rule=("states = callback programs; transitions = (program, configuration, token) cells each executing two real verifications; "
          "a case is non-trivial when the callback actually ran (token parsed); distinct by descriptor"),
    runs=lambda tier: [dict(harness="claims", args=["--param", 0])] + ([dict(harness="claims", args=["--param", 1])] if tier == "thorough" else []),
    bound=dict(quick="all accepting programs of length <= 2 (307), all vetoing programs of length <= 2 over 20 operations (421)",
               thorough="all accepting programs of length <= 4 (88 741), all vetoing programs of length <= 3 (8 421), both providers"),
    assumptions=["accepting callbacks that change config->key/alg to something other than the baseline's key are C01/C02's routes"],
    budget_s=dict(quick=600, thorough=2400),
)

# ---------------------------------------------------------------- C15
PROPS["C15"] = dict(
    level="model_checking",
    technique="explicit-state BFS over set/get/del histories (dedup on the map's canonical JSON) on six real receivers, reference map advanced in lock-step",
    level_text=("breadth-first search over all histories of 156 set/get/del operations (INT/STR/BOOL/JSON, with and without replace, "
                "names a/b/empty/NULL, malformed and non-container JSON) up to depth 3 (quick) / 4 (thorough) on builder headers, "
                "builder claims and the jwt_t handed to builder and checker callbacks; each history is replayed on a fresh real "
                "object and every call's return code, value.error, returned value and the resulting whole-object dump are compared "
                "with ref_map; every second case leaves a stale error code in the jwt_value_t before the call (a caller reusing "
                "one value); states are merged on the canonical dump, which is all the API can read or write; JSON texts with null-valued members; copy operations (get a member, set another to the value just read, through one jwt_value_t)"),
    level_note="ref_map = model_apply() in harness/seq.c (90 lines on jansson containers); merging on the dump is future-equivalent because the map is the only state these calls touch",
    rule=("states = distinct canonical maps reached per receiver; transitions = state x operation (all executed on the real object by "
          "replaying the state's shortest history); evaluations = individual API calls compared with the model; non-trivial = the "
          "last operation changed the map"),
    runs=lambda tier: [dict(harness="seq")],
    bound=dict(quick="all histories of depth <= 3 over 156 operations, 6 receivers", thorough="until the frontier closes (all reachable maps of the alphabet; depth bound 12 not reached)"),
    assumptions=["non-UTF-8 strings and names other than a, b, empty, NULL are outside the alphabet"],
    budget_s=dict(quick=600, thorough=3000),
)

# ---------------------------------------------------------------- C13
PROPS["C13"] = dict(
    level="model_checking",
    technique="exhaustive enumeration of all call histories up to depth D on one reused real object, no state merging, differential oracle against a fresh object",
    level_text=("all histories of depth 4 (quick) / 5 (thorough) over 13 checker operations (verify of 11 token classes, error_clear, "
                "clock advance) for four checker configurations, and of depth 5 / 6 over 13 builder operations (setkey good / "
                "fails-at-signing / none / public, callbacks failing / mutating / none, generate, error_clear, clock, claim set/del); "
                "after every verify/generate the result is compared with a freshly created, identically configured object at the "
                "same clock.  States are deliberately not merged: merging by observable state would hide hidden state; one checker configuration carries a callback that edits the token it is handed (headers and claims); callbacks that overwrite config->ctx (checker and builder)"),
    level_note="the model is only the net configuration (last successful setkey/setcb/claim); every history is an implementation trace",
    rule=("states = histories executed (no merging); transitions = verify/generate steps compared with a fresh object; non-trivial = "
          "every executed history (each contains at least one compared step or is a prefix-closed member)"),
    runs=lambda tier: [dict(harness="seq", args=["--param", 0])] + ([dict(harness="seq", args=["--param", 1])] if tier == "thorough" else []),
    bound=dict(quick="checker depth 4 (4 configs x 28561 histories), builder depth 5", thorough="checker depth 5 (4 x 371293), builder depth 6; both providers"),
    assumptions=["ECDSA verification is the only randomised-signature path (tokens pre-signed by the reference with a seeded RNG)"],
    budget_s=dict(quick=600, thorough=3000),
)

# ---------------------------------------------------------------- C14
PROPS["C14"] = dict(
    level="exploration",
    technique="exhaustive enumeration of a failure-cause catalogue x depth-2 call histories (with/without error_clear) on real objects; contract predicate checked after every call",
    level_text=("every catalogued failure cause reachable from outside (41 token classes x 14 checker configurations; 14 builder "
                "configurations; every JWK defect of the C07 single-deviation matrix; every header/claim call of the C15 alphabet at "
                "depth 2) is run on a fresh object and after every other cause on the same object, with and without error_clear; "
                "after each call the contract (return value <=> error flag, non-empty message on failure, clean state on success, "
                "return code == value.error) is checked; names, string values and JSON text that are not UTF-8 are probed on every receiver for returned code == value.error"),
    level_note="the predicate is the statement itself; no reference model is needed beyond the flag/return relation",
    rule=("cases = (configuration, first cause or fresh, clear?, second cause); evaluations = calls judged; non-trivial = every "
          "executed history (distinct by descriptor); both failing and succeeding calls occur (counters)"),
    runs=lambda tier: [dict(harness="seq", args=["--param", 0]), dict(harness="seq", args=["--param", 1]), dict(harness="jwk", args=["--param", 0])],
    bound=dict(quick="all ordered pairs of causes per configuration; JWK single-deviation matrix", thorough="same plus all pairs of JWK deviations"),
    assumptions=["causes inside the crypto libraries (e.g. provider-internal allocation failure) are not reachable from outside and not catalogued"],
    budget_s=dict(quick=600, thorough=1200),
)

# ---------------------------------------------------------------- C16
PROPS["C16"] = dict(
    level="model_checking",
    technique="explicit-state BFS over keyring operation histories on the real jwk_set (dedup on the model list), reference list advanced in lock-step, all observers compared after every step",
    level_text=("breadth-first search over histories of 14 operations (loads of a good key, a duplicate-kid key, a bad key, a mixed "
                "three-element set, non-JSON, an empty set; free at first/middle/last/n/SIZE_MAX; free_bad; free_all; error_clear) "
                "with the list capped at 9 items, depth 5 (quick) / 9 (thorough); every history is replayed on a fresh real keyring "
                "and after every step count, get(i) for i <= n+1, find_bykid for seven kids, error_any, set error and per-item "
                "kid/kty/error are compared with ref_list; ASan watches for use-after-free; live blocks of libjwt, jansson and "
                "libcrypto are counted per history for leaks; get at indexes 2^31, 2^32, 3*2^32, 2^63 ... + i and free(2^32); items refused after their key material was built (valid key, non-string alg)"),
    level_note="ref_list = model_list_step() in harness/jwk.c; states merged on the model list + set error flag, which determine every observer",
    rule=("states = distinct model lists; transitions = state x operation, each executed on the real keyring by replaying the state's "
          "shortest history; non-trivial = the operation changed the list or the error flag"),
    runs=lambda tier: [dict(harness="jwk")],
    bound=dict(quick="depth 5, list length <= 9", thorough="depth 9, list length <= 9"),
    assumptions=["libcrypto allocation accounting uses CRYPTO_set_mem_functions; a non-zero delta is confirmed by two repeat runs before it is called a leak"],
    budget_s=dict(quick=600, thorough=3000),
)

# ---------------------------------------------------------------- C07
PROPS["C07"] = dict(
    level="exploration",
    technique="exhaustive enumeration of bounded input families (short strings, all truncations, JSON-shape products, member x shape type-confusion matrix) through every entry point on the real code under ASan/UBSan with block-exact leak accounting",
    level_text=("every string of length <= 4 over an 11-character JSON alphabet, every truncation of a valid three-key JWKS (also with "
                "an embedded NUL), every JSON type as document / as value of keys / as array element in all pairs, counted-length "
                "variants, and for ten JWK templates every member x 16 shapes (thorough: every pair of members x pair of shapes) is "
                "loaded through the applicable entry points; set error, item count, document order (set vs element-by-element), "
                "per-item error/message/material and agreement between entry points are judged against jansson's own verdict on "
                "the text; every imported key is then used for a sign/verify attempt (memory safety only); member shapes include non-ASCII UTF-8 text and leading/embedded = padding; the counted-reader length sweep (embedded NUL, trailing junk) also runs through the file and FILE* readers; well-formed over-long values (48 and 69 octets); the quick tier runs all pairs of seven basic shapes"),
    level_note="trusts jansson's json_loadb(JSON_DECODE_ANY) as the definition of 'is JSON'; ASan/UBSan for the crash clause; live-block counts of libjwt+jansson+libcrypto for leaks",
    rule=("evaluations = load calls judged; cases group inputs by family; non-trivial = distinct documents (by content hash) that "
          "produced at least one item; distinct outcomes = (set error, item count) vectors"),
    runs=lambda tier: [dict(harness="jwk", args=["--param", 0])] + ([dict(harness="jwk", args=["--param", 1])] if tier == "thorough" else []),
    bound=dict(quick="single deviations (10 templates x 17 members x 16 shapes)", thorough="all pairs of deviations; both providers"),
    assumptions=["uninitialised reads are invisible to ASan/UBSan (DESIGN section 5)"],
    budget_s=dict(quick=600, thorough=3000),
)

# ---------------------------------------------------------------- C08
PROPS["C08"] = dict(
    level="exploration",
    technique="exhaustive enumeration of JWK presentation variants of a fixed key pool on the real importer, compared member by member with an independent reading of the JWK",
    level_text=("every key of the committed pool (RSA 512-4096 incl. e=3 / 33-bit e / RSA-PSS, P-256/384/521, secp256k1, keys whose x, y "
                "or d has a leading zero byte, Ed25519, Ed448) in private and public form, and oct keys of every length 1-512, is "
                "imported in every single and every pair of presentation dimensions (alg, kid, use, key_ops, integer encoding, "
                "foreign member); thorough adds the full product for six representative keys.  The PEM the library hands out is "
                "re-parsed by libcrypto and n,e,d,p,q,dp,dq,qi / group,x,y,d / raw OKP keys are compared as integers with the "
                "harness's own base64url+BIGNUM reading of the JWK; metadata is compared with what the JWK states; foreign members "
                "must leave PEM and metadata unchanged; every pool key is also imported right after each of 8 defective keys (separate set alive or freed, same JWKS), and oct k is also written with = padding (no import demand, but bytes and bits must match what precedes the padding); the key type in the PEM follows the alg (RSA-PSS exactly for PS*)"),
    level_note="the pool is fixed and committed (corner shapes chosen on purpose); random regeneration would be sampling",
    rule=("evaluations = import calls; non-trivial = distinct JWK texts imported without error and compared; zero-padded and "
          "minimal-length integer encodings are named by the quantifier and must import as well"),
    runs=lambda tier: [dict(harness="jwk", args=["--param", 0])],
    bound=dict(quick="all pool keys x all single and pairwise dimension sweeps; oct 1-512", thorough="plus the full product for 6 representative keys"),
    assumptions=["GnuTLS has no JWK importer of its own (it uses the OpenSSL one), so only provider 0 is run"],
    budget_s=dict(quick=600, thorough=3000),
)

# ---------------------------------------------------------------- C17
PROPS["C17"] = dict(
    level="fault_enumeration",
    technique="exhaustive single-fault enumeration: for every scenario, every allocation index k (through jwt_set_alloc) fails once; results compared call by call with the fault-free run",
    level_text=("29 scenarios covering key loading (every kty, sets, bad keys, files), builders (HS256, RS256, EdDSA, ES256, none, "
                "callbacks, all setter/getter types), and checkers (valid/expired/bad/wrong-alg/malformed/unsigned tokens, all key "
                "types, key-selecting and token-mutating callbacks) are first run fault-free with a counting allocator; then for "
                "every k = 1..N the k-th request returns NULL.  This is exactly the property's quantifier (any single allocation), "
                "so bound 1 is the whole space.  Calls are compared in order up to and including the first one that reports failure "
                "through its documented channel; a differing result without a reported failure is a violation (wrong accept, token "
                "differs, key differs), as is any crash or sanitizer report; checker scenarios include bad-signature ES/RS/PS/EdDSA tokens; the harness allocator reports any pointer handed to its free function that it never returned (foreign free)"),
    level_note="allocations inside OpenSSL/GnuTLS do not pass through jwt_set_alloc and are not faulted; jansson's do (by design of jwt_set_alloc)",
    rule=("cases = (scenario, k); evaluations = faulty runs; every case is non-trivial when the fault was delivered (counter "
          "faults_delivered); finding key = innermost libjwt function > callee at the failing allocation | symptom"),
    runs=_both_providers("oom"),
    bound=dict(quick="every allocation index of every scenario, both providers", thorough="same"),
    assumptions=["multi-fault sequences are not explored: the property promises nothing for them"],
    budget_s=dict(quick=900, thorough=1800),
)

# ---------------------------------------------------------------- C06
PROPS["C06"] = dict(
    level="exploration",
    technique="bounded-exhaustive enumeration of token-string families (fragment product, complete d=1 byte neighbourhood of valid tokens, length sweeps, all short strings) on the real checker under ASan/UBSan with block-exact leak accounting",
    level_text=("(a) the full product of 51 header x 37 payload x 18 signature fragments (one fragment per shortcut in the parser and "
                "decoder, incl. the correct HS256 MAC) under five checker configurations, plus 2- and 4-segment assemblies; (b) the "
                "complete single-byte neighbourhood (every position x every byte substituted and inserted, every deletion and "
                "truncation) of one valid token per configuration, and in the thorough tier the d=2 neighbourhood (every pair of positions x 6x6 structural bytes) of the unsigned and the HS256 token; (c) one token per segment length 0-300 and around 4 Ki / 64 Ki; "
                "(d) every string of length <= 6 over {. = e A - ! 0x80}; (e) a signature of every decoded length 0-300 (and around 384, 512) "
                "under every header x nine checker configurations (P-256/384/521, Ed25519/Ed448, RSA PKCS1/PSS, oct, none).  Everything "
                "is run twice per provider: under ASan/UBSan, and with a guard-page allocator installed through jwt_set_alloc so that "
                "over-reads by uninstrumented provider code fault as well.  Every call must return (watchdog), without sanitizer "
                "report or leak, and may return 0 only if ref_token finds two dots, a header that decodes to a JSON object with a "
                "known string alg, and a payload that decodes to JSON; alg names followed by 256 / 512 more characters"),
    level_note="bounded-exhaustive, not 'all byte strings up to tens of kilobytes': random and coverage-guided generation are a different family and are not used",
    rule=("evaluations = jwt_checker_verify calls judged; non-trivial = calls that returned 0 and passed the well-formedness "
          "reference (counter); cases group the inputs by family"),
    runs=lambda tier: [dict(harness="parse", args=["--param", 0]), dict(harness="parse", args=["--param", 1]),
                       dict(harness="parse", args=["--param", 2]), dict(harness="parse", args=["--param", 3])],
    bound=dict(quick="product + assemblies; d=1 neighbourhood at every 2nd (RS256: 6th) position; lengths 0-300, 4 Ki, 64 Ki; all strings <= 6", thorough="d=1 neighbourhood at every position; more lengths"),
    assumptions=["ref_token uses jansson's json_loadb over the whole decoded length as the definition of JSON"],
    budget_s=dict(quick=900, thorough=3000),
)

# ---------------------------------------------------------------- C01
PROPS["C01"] = dict(
    level="exploration",
    technique="exhaustive enumeration of the d=1 mutation neighbourhood of valid tokens (and d=2 for every pair in the thorough tier) for every key/algorithm pair on the real checker, judged by an independent integer-level signature reference",
    level_text=("for every (key, algorithm) pair of the support matrix (oct/HS256-512, RSA and RSA-PSS keys with RS*/PS*, P-256/384/521 "
                "and secp256k1 with ES*, Ed25519, Ed448) and both providers, starting from a reference-signed and a library-signed "
                "token, every single-bit flip of the signature, every value of its first/last byte and character, every truncation "
                "and one-character extension, zero padding, ECDSA re-padding, every character substitution and bit flip in header "
                "and payload, every splice with the signature of every other pool token, every signature made with another "
                "algorithm, and a list of adversarial assemblies (attacker-keyed HMACs, ECDSA (0,0)/(n,n)/(r,n-s)/DER, RSA s in "
                "{0,1,n-1,n,s+n}, EdDSA zero/identity) is verified; acceptance is permitted only if ref_crypto finds the signature "
                "valid under the configured key and the header names the pinned algorithm; junk octets between or around a zero octet and the signature (00||junk||sig, junk||sig, sig||junk||00); signatures extended by 256, 512 and 768 characters; high-bit bytes in place of signature characters"),
    level_note="one-directional (accepted => valid at the integer level): malleability-only variants are not flagged, by design (DESIGN 3 C01)",
    rule=("evaluations = verifications judged; cases = (pair, base token source, mutation class chunk); non-trivial = cases that ran a "
          "mutation class against a base token that itself verifies; accepted mutants are each confirmed by the reference (counter)"),
    runs=_both_providers("sigmut"),
    bound=dict(quick="d=1 for 12 pairs; header/payload substitutions at a stride-8 subset of positions", thorough="d=1 for 23 pairs at every position; d=2 (signature truncate-then-extend/substitute at every cut; header character pairs at every two positions over a 16-character subset) for every pair"),
    assumptions=["trusts libcrypto primitives under ref_crypto (keys parsed from the harness's own PEM, never from a libjwt import)"],
    budget_s=dict(quick=900, thorough=3000),
)

# ---------------------------------------------------------------- C12
PROPS["C12"] = dict(
    level="exploration",
    technique="exhaustive enumeration of provider pairs x common support matrix x mutation classes in one process, plus explicit-state search over provider-switching calls and JWT_CRYPTO values",
    level_text=("all (signing provider, verifying provider) pairs over the common support matrix with keys loaded once and used under "
                "both providers; byte-identical output for HS*, RS*, EdDSA; every C01 mutant the reference calls invalid must be "
                "rejected by both providers; every depth-3 history over the d=1 edit neighbourhood of the provider names "
                "(deletions, case flips, substitutions, insertions) and ids -2..12 against the model 'changes only on an exact "
                "compiled-in name or id'; every JWT_CRYPTO value of the quantifier by re-executing the harness with the variable set; key rotation with certain address reuse (5 algorithm families x 3 key sequences x 16 sign/verify/load/free provider quadruples, every round freeing its keyring, builder and checker before the next); every two-step sequence of switch operations after every JWT_CRYPTO start value (re-executed process); RSA keys of 2050 and 3002 bits (modulus not a whole number of octets)"),
    level_note="ES256K/secp256k1 are OpenSSL-only and excluded, as the statement scopes",
    rule=("evaluations = verifications; switching: states = 2 providers, transitions = set_crypto_ops calls compared with the model; "
          "non-trivial = cases that executed a cross-provider comparison"),
    runs=lambda tier: [dict(harness="sigmut")],
    bound=dict(quick="12 common pairs; RSA signature bit flips deferred", thorough="all common pairs, all classes"),
    assumptions=["mbedTLS is not compiled on this image: its name and id must be refused"],
    budget_s=dict(quick=900, thorough=3000),
)

# ---------------------------------------------------------------- C05
PROPS["C05"] = dict(
    level="exploration",
    technique="exhaustive enumeration of key/algorithm x (signing provider, verifying provider) x a bounded-exhaustive JSON tree family on the real builder and checker; ECDSA nonces owned by a seeded DRBG",
    level_text=("29 (key, algorithm) pairs (oct 32-200 bytes, RSA 2048-4096 incl. e=3, 33-bit e and RSA-PSS keys, P-256/384/521 incl. "
                "leading-zero keys, secp256k1, Ed25519, Ed448) x all four provider pairs x every JSON tree of depth <= 2 / width <= 2 "
                "over 23 leaves (integer extremes, reals incl. ones needing 17 significant digits and the smallest denormal, empty/UTF-8/escaped strings, booleans, null, empty containers) plus 4 Ki / 64 Ki "
                "strings, as header and claim values, under all eight iat/nbf/exp option combinations: the token must verify, the "
                "reference must find the signature valid and of RFC 7518 width, and the header and claims a checker callback reads "
                "must be json_equal to the builder input plus alg/typ/iat/nbf/exp.  With libcrypto's RNG replaced by a counter DRBG, "
                "2 000 (quick) / 20 000 (thorough) ECDSA signatures per curve and provider are generated and classified by the "
                "number of leading zero bytes of r and s; every signature with a short r or s is verified under both providers; key rotation with certain address reuse: every round's token is made with, and accepted under, that round's key; expiry offsets beyond 2^31 seconds"),
    level_note="the r/s length classes, not the nonces, are what is covered; classes reached are reported as counters (GnuTLS's RNG cannot be replaced)",
    rule=("evaluations = tokens generated + verifications; non-trivial = cases (pair, provider pair, chunk of trees); "
          "roundtrips_content_equal counts full content comparisons that passed"),
    runs=lambda tier: [dict(harness="roundtrip")],
    bound=dict(quick="every 29th tree (about 50 of 1 448) for every pair and provider pair; 2 000 ECDSA signatures per curve/provider",
               thorough="all trees; 20 000 ECDSA signatures per curve/provider"),
    assumptions=["fixed committed key pool instead of freshly generated keys (DESIGN 2.6)"],
    budget_s=dict(quick=900, thorough=5400),
)

# ---------------------------------------------------------------- C10
PROPS["C10"] = dict(
    level="model_checking",
    technique="explicit-state BFS over builder call histories (dedup on the canonical builder state) on the real builder, ref_builder model advanced in lock-step, every token decoded by an independent reference",
    level_text=("breadth-first search over histories of 31 builder operations (header/claim set and delete incl. iat/nbf/exp/alg/typ "
                "names, enable_iat, time_offset with negative/zero/positive and invalid arguments, setkey none/oct/ES256/public, five "
                "callbacks incl. one that withdraws key and alg, generate at two clock values) to depth 4 (quick) / until the frontier closes (thorough: all 15 360 reachable builder states); every history is replayed on a fresh real "
                "builder; every token is split into exactly three canonical unpadded base64url parts, header and payload are compared "
                "(json_equal) with what ref_builder computes (alg forced, typ defaulted on signed tokens only, iat/nbf/exp "
                "overriding, callback edits in that token only), the signature is checked by ref_crypto, and the builder's "
                "GET_JSON snapshots before and after generate must be identical; typ set to an integer; time offsets of 3000000000 and 6311520000 seconds"),
    level_note="ref_builder = bmodel_step() + check_generate() in harness/roundtrip.c; states merged on everything generate can read",
    rule=("states = distinct builder states; transitions = state x operation, each executed on the real builder by replaying the "
          "state's shortest history and observed through generate at two clocks; evaluations = generate calls compared"),
    runs=lambda tier: [dict(harness="roundtrip", args=["--param", 0])] + ([dict(harness="roundtrip", args=["--param", 1])] if tier == "thorough" else []),
    bound=dict(quick="depth 4", thorough="frontier closed (all reachable states of the alphabet; depth bound 16 not reached), both providers"),
    assumptions=["clock values T0 and T0+1000 stand for arbitrary clocks"],
    budget_s=dict(quick=900, thorough=5400),
)

# ---------------------------------------------------------------- C18
_TSAN_ENV = {"TSAN_OPTIONS": "log_path=tsan.log:exitcode=0:halt_on_error=0:report_signal_unsafe=0", "VF_TSAN_LOG": "tsan.log",
             "UBSAN_OPTIONS": "exitcode=0", "ASAN_OPTIONS": "exitcode=0"}   # sanitizer common flags are shared: keep the exit code 0
PROPS["C18"] = dict(
    level="model_checking",
    technique="preemption-bounded stateless exploration of thread interleavings of the real code under a cooperative scheduler (CHESS-style iterative context bounding); separate free-running ThreadSanitizer pass for unsynchronised accesses",
    level_text=("2 threads (3 for HS256 in the thorough tier), each with its own builder and checker and a shared read-only keyring "
                "that is loaded anew for every schedule (once never used before, once after one sequential body), "
                "run generate + verify(own) + verify(bad) + verify(good) for HS256, EdDSA, RS256 and ES256 on both providers; the "
                "threads are real pthreads serialised by engine/sched.c, with a scheduling point at every allocator call of libjwt "
                "and jansson, every OPENSSL_malloc/free call libjwt itself makes and every time() call (about 110 points per thread); every schedule with at most 1 preemption (quick) / "
                "2 preemptions (thorough, all four algorithms with 2 threads) is executed and each thread's token and verdicts must equal its "
                "sequential run.  Because the scheduler's hand-offs are happens-before edges, data races are looked for "
                "separately: the same bodies free-running on 8 threads under ThreadSanitizer; mixed runs give the two threads different algorithms and keys (HS256+EdDSA, EdDSA+ES256, RS256+HS256); an ES256K/secp256k1 configuration (refused throughout under GnuTLS on this tree); each thread's checker expects a different claim (iss / aud)"),
    level_note="scheduling points sit at allocator and clock seams only: a static touched strictly between two adjacent points is visible to the TSan pass only; weak-memory effects are not modelled",
    rule=("states = schedules executed (each a complete execution of the real code); transitions = scheduling decisions taken; "
          "evaluations = executions compared with the sequential results; schedules_with_real_alternation counts those in which "
          "the threads actually alternated"),
    runs=lambda tier: [dict(harness="conc", args=["--param", 0], case_timeout=900), dict(harness="conc", args=["--param", 1], case_timeout=900),
                       dict(harness="conc", variant="tsan", args=["--param", 8], env=_TSAN_ENV, shards=2),
                       dict(harness="conc", variant="tsan", args=["--param", 9], env=_TSAN_ENV, shards=2)],
    bound=dict(quick="all schedules with <= 1 preemption, 2 threads, 4 algorithms x 2 providers x fresh/used keyring", thorough="<= 2 preemptions for all four algorithms (2 threads); <= 1 for 3 threads (HS256)"),
    assumptions=["TSan cannot see races inside the uninstrumented OpenSSL/GnuTLS/jansson libraries"],
    budget_s=dict(quick=900, thorough=5400),
)

# ---------------------------------------------------------------- C20
PROPS["C20"] = dict(
    level="exploration",
    technique="exhaustive process-level enumeration of token-list compositions, option spellings and the key pool through the built command-line tools",
    level_text=("the four tools are built from /repo/tools and driven as child processes: jwt-verify with every good/bad composition of "
                "1-6 (thorough 1-10) tokens and with 255/256/257/512 (thorough also 254, 258, 511, 513, 1024) tokens in six shapes, "
                "as arguments and on standard input; a jwt-generate -> jwt-verify round trip for seven key files (with and without "
                "alg attribute, oct/EC/RSA/OKP, PS256) under every combination of short and long spellings (and =value forms) of "
                "every documented option; every documented claim type through -c/--claim/--claim= and -j over a value ladder (18 "
                "integers up to +-2^63 incl. hex/octal forms, also as a future exp and a past nbf; 9 boolean spellings; 7 strings): "
                "the payload must carry strtol()'s value and jwt-verify must accept; key2jwk -> jwk2key for every key of the pool in private and public form (leading-zero EC "
                "keys included) and oct files of 32-512 bytes, comparing the JWK member by member with the harness's own JWK of "
                "the same PEM (RFC 7518 fixed-width EC members) and the PEM written back with the original; key2jwk is run on every ordered pair (thorough: triple) of key-file kinds (RSA/EC/OKP private and public PEM, raw) and every position must yield what the file yields alone; lists with empty tokens (blank stdin lines, empty arguments) in every good/bad/empty composition of 2-4 tokens; oct keys ending in LF, CR, CRLF, space, TAB, NUL; options placed after, between and around the tokens; standard input whose last line is unterminated"),
    level_note="exit status 0 <=> every token verified is judged against tokens whose validity is known by construction and confirmed one by one",
    rule=("evaluations = tool invocations; cases = one composition family / one spelling combination / one key; non-trivial = cases "
          "whose round trip completed and was compared"),
    runs=lambda tier: [dict(harness="cli", script="harness/cli.py", tools=True)],
    bound=dict(quick="lists 1-6 and 255/256/257/512; all spellings; all pool keys; oct 32-71 and boundary sizes", thorough="lists 1-10 and 254-258, 511-513, 1024; oct 32-512"),
    assumptions=["stdin tokens longer than BUFSIZ and ARG_MAX-sized lists are not enumerated (DESIGN 5)"],
    tools=True,
    budget_s=dict(quick=900, thorough=3000),
)


# ---------------------------------------------------------------- additions of round 12 (kept apart so that the texts above stay readable)
def _app(pid, text):
    PROPS[pid]["level_text"] += text


_NATIVE = ("every signature the key can make by its own nature (ECDSA over SHA-256/384/512 as r||s and as DER, RSA PKCS#1 and PSS over each hash, "
           "EdDSA), made by the reference")
_app("C01", "; a family of configurations whose key and algorithm do not go together (11 keys x every asymmetric algorithm setkey takes): under the pinned header, " + _NATIVE +
     " -- accepted only where the reference admits the key for the algorithm and verifies the signature; the rotation histories are doubled by a checker holding the private item that verifies just before the public-key checker")
_app("C02", "; six more signature kinds per cell: " + _NATIVE + ", under every header that names a real algorithm")
_app("C03", "; the secp256k1 key and ES256K are in the tables (a provider that cannot sign with a key must refuse, not emit an empty signature)")
_app("C05", "; the rotation histories are doubled by a checker holding the private item that verifies just before the public-key checker")
_app("C06", "; fourteen checker configurations: nine matching ones and five that setkey accepts although key and algorithm do not go together (ES256 with a secp256k1 or brainpoolP256r1 key, "
     "ES256K and EdDSA with a P-256 key, RS256 with an RSA-PSS key); besides the exact block counts of the jwt_set_alloc and libcrypto allocators the live-block count of the whole process heap "
     "(sanitizer allocation hooks: GnuTLS, nettle and gmp included) must not grow with every call (confirmed over forty repetitions)")
_app("C09", "; every below-floor and cross-family cell also verifies " + _NATIVE + " under the cell's header")
_app("C12", "; the rotation histories are doubled by a checker holding the private item that verifies just before the public-key checker (what kind of key the previous verification held must not matter)")
_app("C15", "; two receivers more: the token of a builder that already holds {a:5,b:\"y\"} (the map starts non-empty), after which the builder's own map must read back unchanged")
_app("C16", "; the kids k2/kb/kz are 257 characters long and share their first 256; look-ups also of the bare prefix, one character less, another last character, one character more and the short aliases")
_app("C18", "; the sequential result of each body is the reference whatever it is (bodies that do not behave as designed are counted in the evidence, not treated as a harness failure)")
_app("C20", "; lists of tokens failing for different reasons (bad signature, not a token, expired, not yet valid, both) in runs of 1-9, 15-17, 31-33, 63-65, 127-129, 255-257 and 512, "
     "and 1-4 tokens of one cause mixed with 0-33 (thorough 0-64) of another")

# ---------------------------------------------------------------- additions of round 13
_app("C03", "; under OpenSSL four private keys with which signing itself fails inside the provider (RSA modulus made even, RSA d = 0, EC d one octet too long, EC d = 0): a refusal, never header.payload.")
_app("C06", "; a fifteenth configuration: a key-less checker some of whose configuration calls were refused (expected iss set, then iss, sub and aud \"set\" to text that is not UTF-8)")
_app("C07", "; an eighth entry point: jwks_load into a set that refused a text that is not JSON just before (the stale set error is not this document's)")
_app("C11", "; a violation that needs what an earlier case left behind in the library (per-thread state) is confirmed by replaying the worker's earlier cases in one process")
_app("C15", "; STR values that are not UTF-8 (refused with INVALID, no change) are in the alphabet")
_app("C19", "; the refused-call operation also replaces exp, nbf, iss, sub and aud by text that is not UTF-8 (refused for its value)")
_app("C20", "; jwk2key given a file it cannot use (truncated JSON, empty, a number, unknown kty, missing) before or after a seven-key set: every key of the set is still written back")

# ---------------------------------------------------------------- additions of round 14
_app("C02", "; the key's own algorithm is modelled from the alg text the harness wrote into the JWK, not from the item the library made of it; the attribute lists carry key-management names of RFC 7518 section 4.1 (RSA-OAEP, RSA1_5, A256KW, dir, ECDH-ES, PBES2-HS256+A128KW, A128GCMKW) and near-misses (hs256, Ed25519)")
_app("C03", "; key-management alg names (RSA-OAEP, dir) on the builder keys")
_app("C06", "; a sixteenth configuration: a key-less checker with time_leeway(EXP, LONG_MAX) and time_leeway(NBF, LONG_MAX)")
_app("C07", "; member shapes of 600 characters, decodable and with a foreign character")
_app("C10", "; offsets 2^53+1 and 2^60+1 (clock + offset is odd and beyond what a double holds) and LONG_MAX (clock + offset does not fit: generate must refuse with an error)")
_app("C12", "; an OKP private JWK that carries another key's x next to its own d (the key is what d says, under both providers)")
_app("C13", "; an eighth checker configuration with the largest leeways, shown time claims far outside any window and time claims that are no integers")
_app("C17", "; the number of open descriptors of the process is taken around every faulted scenario and must change as in the fault-free run")
_app("C18", "; odd threads also verify a token whose signature has the wrong length; an execution in which no thread reaches its next scheduling point within 20 s is reported (no-progress) instead of waiting for the per-case watchdog")
_app("C19", "; an operation that makes 255 harmless changes in a row (256 with the next one)")
_app("C20", "; jwt-verify --verbose --print=CMD / -v -p CMD with 1, 2 and 40 (thorough also 3 and 100) valid tokens, and with a bad one added, under a limit of 64 open descriptors")

# ---------------------------------------------------------------- additions of round 15
_app("C05", "; every fourth pair each has keys labelled for what they are used for (signer key_ops [sign] / checker [verify]; both [sign,verify]; use sig)")
_app("C07", "; a ninth entry point: jwks_load_fromfp on a stream positioned after a line the caller has read")
_app("C12", "; after every switch operation the child runs an HS256 and an ES256 round trip under the provider in force")

# ---------------------------------------------------------------- addition of round 16
_app("C07", "; documents that do not parse and whose offending token, quoted back in the parser's error text, holds printf conversions (%s, %n, %d, %x)")

# ---------------------------------------------------------------- additions of round 17
_app("C02", "; on the callback routes every second case hands the context over once more on its own (setcb(obj, NULL, ctx)): the callback must still be in place")
_app("C04", "; the expected values are \"a\", the empty string and a long non-ASCII one")
