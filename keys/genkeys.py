#!/usr/bin/env python3
"""One-off generator of the committed key pool (run once; never at check time).

Keys are generated with the openssl CLI; the JWK forms are written here from
`openssl pkey -text` output -- independent of libjwt and of tools/key2jwk.
EC coordinates are written fixed-width (RFC 7518 6.2.1.2), RSA integers minimal.
"""
import base64, json, os, re, subprocess, sys

D = os.path.dirname(os.path.abspath(__file__))


def sh(*a, inp=None):
    return subprocess.run(a, input=inp, capture_output=True, check=True).stdout


def b64u(b):
    return base64.urlsafe_b64encode(b).rstrip(b"=").decode()


def parse_text(txt):
    """openssl pkey -text -> {field: bytes or int}"""
    out = {}
    cur = None
    for line in txt.decode().splitlines():
        m = re.match(r"^([A-Za-z0-9 \-]+):\s*(.*)$", line)
        if m and not line.startswith(" "):
            cur = m.group(1).strip()
            rest = m.group(2).strip()
            out[cur] = rest
            if rest:
                mm = re.match(r"^(\d+) \(0x[0-9a-fA-F]+\)$", rest)
                if mm:
                    out[cur] = int(mm.group(1))
                cur_hex = None
            continue
        if line.startswith("    ") and cur is not None:
            h = line.strip().replace(":", "")
            if re.fullmatch(r"[0-9a-fA-F]+", h):
                prev = out.get(cur)
                if not isinstance(prev, bytes):
                    prev = b""
                out[cur] = prev + bytes.fromhex(h)
    return out


def int_bytes(v):
    if isinstance(v, int):
        return v.to_bytes((v.bit_length() + 7) // 8 or 1, "big")
    return v.lstrip(b"\x00") or b"\x00"


def fixed(v, n):
    v = v.lstrip(b"\x00")
    return b"\x00" * (n - len(v)) + v


CURVES = {"prime256v1": ("P-256", 32), "secp384r1": ("P-384", 48), "secp521r1": ("P-521", 66), "secp256k1": ("secp256k1", 32)}


def jwk_of(priv_pem):
    t = parse_text(sh("openssl", "pkey", "-text", "-noout", inp=priv_pem))
    head = sh("openssl", "pkey", "-text", "-noout", inp=priv_pem).decode().splitlines()[0]
    if "modulus" in t:
        pub = {"kty": "RSA", "n": b64u(int_bytes(t["modulus"])), "e": b64u(int_bytes(t["publicExponent"]))}
        prv = dict(pub)
        for k, f in (("d", "privateExponent"), ("p", "prime1"), ("q", "prime2"), ("dp", "exponent1"), ("dq", "exponent2"), ("qi", "coefficient")):
            prv[k] = b64u(int_bytes(t[f]))
        meta = {"kty": "RSA", "bits": int(re.search(r"(\d+) bit", head).group(1)),
                "pss": False}
        return pub, prv, meta
    if "ASN1 OID" in t:
        crv, n = CURVES[t["ASN1 OID"]]
        p = t["pub"]
        assert p[0] == 4 and len(p) == 1 + 2 * n
        pub = {"kty": "EC", "crv": crv, "x": b64u(p[1:1 + n]), "y": b64u(p[1 + n:])}
        prv = dict(pub)
        prv["d"] = b64u(fixed(t["priv"], n))
        return pub, prv, {"kty": "EC", "crv": crv, "bits": {"P-256": 256, "P-384": 384, "P-521": 521, "secp256k1": 256}[crv],
                          "x0": p[1] == 0, "y0": p[1 + n] == 0, "d0": fixed(t["priv"], n)[0] == 0}
    for name in ("ED25519", "ED448", "X25519"):
        if name in head:
            crv = {"ED25519": "Ed25519", "ED448": "Ed448", "X25519": "X25519"}[name]
            pub = {"kty": "OKP", "crv": crv, "x": b64u(t["pub"])}
            prv = dict(pub)
            prv["d"] = b64u(t["priv"])
            return pub, prv, {"kty": "OKP", "crv": crv, "bits": {"Ed25519": 256, "Ed448": 456, "X25519": 253}[crv]}
    raise SystemExit("unknown key: " + head)


index = []


def emit(name, priv_pem):
    pub_pem = sh("openssl", "pkey", "-pubout", inp=priv_pem)
    pub, prv, meta = jwk_of(priv_pem)
    open(os.path.join(D, name + ".priv.pem"), "wb").write(priv_pem)
    open(os.path.join(D, name + ".pub.pem"), "wb").write(pub_pem)
    json.dump(prv, open(os.path.join(D, name + ".priv.jwk"), "w"))
    json.dump(pub, open(os.path.join(D, name + ".pub.jwk"), "w"))
    meta["name"] = name
    index.append(meta)
    print(name, meta)
    return meta


def gen(*opts):
    return sh("openssl", "genpkey", *opts)


def main():
    for name, bits in (("rsa512", 512), ("rsa1024", 1024), ("rsa1536", 1536), ("rsa2047", 2047), ("rsa2048a", 2048),
                       ("rsa2048b", 2048), ("rsa2056", 2056), ("rsa3072", 3072), ("rsa4096", 4096)):
        emit(name, gen("-algorithm", "RSA", "-pkeyopt", "rsa_keygen_bits:%d" % bits))
    emit("rsa2048e3", gen("-algorithm", "RSA", "-pkeyopt", "rsa_keygen_bits:2048", "-pkeyopt", "rsa_keygen_pubexp:3"))
    try:
        emit("rsa2048e33", gen("-algorithm", "RSA", "-pkeyopt", "rsa_keygen_bits:2048", "-pkeyopt", "rsa_keygen_pubexp:4294967297"))
    except subprocess.CalledProcessError:
        print("4-byte+ public exponent not supported by this openssl; skipped")
    emit("rsapss2048", gen("-algorithm", "RSA-PSS", "-pkeyopt", "rsa_keygen_bits:2048"))
    for name, crv in (("p256a", "prime256v1"), ("p256b", "prime256v1"), ("p384", "secp384r1"), ("p521", "secp521r1"), ("k256", "secp256k1")):
        emit(name, gen("-algorithm", "EC", "-pkeyopt", "ec_paramgen_curve:" + crv))
    # keys whose x, y or d starts with a zero byte (1/256 each; P-521: top byte is 0 or 1)
    for short, crv in (("p256", "prime256v1"), ("p384", "secp384r1"), ("p521", "secp521r1"), ("k256", "secp256k1")):
        want = {"x0", "y0", "d0"}
        tries = 0
        while want and tries < 20000:
            tries += 1
            pem = gen("-algorithm", "EC", "-pkeyopt", "ec_paramgen_curve:" + crv)
            _, _, meta = jwk_of(pem)
            for w in sorted(want):
                if meta[w]:
                    emit("%s_%s" % (short, w), pem)
                    want.discard(w)
                    break
        print(short, "leading-zero search:", tries, "keys generated")
    emit("ed25519a", gen("-algorithm", "ED25519"))
    emit("ed25519b", gen("-algorithm", "ED25519"))
    emit("ed448", gen("-algorithm", "ED448"))
    emit("x25519", gen("-algorithm", "X25519"))
    json.dump(index, open(os.path.join(D, "INDEX.json"), "w"), indent=1)


if __name__ == "__main__":
    main()
