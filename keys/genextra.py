#!/usr/bin/env python3
"""One-off generator of the extra EC keys (curves outside JOSE: brainpool, small NIST curves) used by C09 only.
Kept apart from INDEX.json so that the harnesses iterating over the main pool do not see them."""
import json, os, re, sys
sys.path.insert(0, os.path.dirname(os.path.abspath(__file__)))
from genkeys import sh, b64u, parse_text, fixed

D = os.path.join(os.path.dirname(os.path.abspath(__file__)), "extra")
CURVES = [("bp512r1", "brainpoolP512r1", 512), ("bp512t1", "brainpoolP512t1", 512), ("bp384r1", "brainpoolP384r1", 384), ("bp256r1", "brainpoolP256r1", 256),
          ("bp320r1", "brainpoolP320r1", 320), ("secp224r1", "secp224r1", 224), ("prime192v1", "prime192v1", 192)]
index = []
for name, crv, bits in CURVES:
    priv = sh("openssl", "genpkey", "-algorithm", "EC", "-pkeyopt", "ec_paramgen_curve:" + crv)
    pub_pem = sh("openssl", "pkey", "-pubout", inp=priv)
    t = parse_text(sh("openssl", "pkey", "-text", "-noout", inp=priv))
    n = (bits + 7) // 8
    p = t["pub"]
    assert p[0] == 4 and len(p) == 1 + 2 * n, (name, len(p))
    pub = {"kty": "EC", "crv": crv, "x": b64u(p[1:1 + n]), "y": b64u(p[1 + n:])}
    prv = dict(pub)
    prv["d"] = b64u(fixed(t["priv"], n))
    open(os.path.join(D, name + ".priv.pem"), "wb").write(priv)
    open(os.path.join(D, name + ".pub.pem"), "wb").write(pub_pem)
    json.dump(prv, open(os.path.join(D, name + ".priv.jwk"), "w"))
    json.dump(pub, open(os.path.join(D, name + ".pub.jwk"), "w"))
    index.append({"kty": "EC", "crv": crv, "bits": bits, "name": name})
    print(name, crv, bits)
json.dump(index, open(os.path.join(D, "INDEX.json"), "w"), indent=1)
