#!/usr/bin/env python3
"""Regenerate MANIFEST.json from props.py (single source of truth)."""
import json, os, sys
VERIF = os.path.dirname(os.path.abspath(__file__))
sys.path.insert(0, VERIF)
from props import PROPS, NOT_APPLICABLE, HOOK_COMMITS  # noqa

all_ids = [json.loads(l)["id"] for l in open(os.path.join(VERIF, "properties.jsonl"))]
checks = []
for pid in all_ids:
    if pid not in PROPS:
        continue
    P = PROPS[pid]
    checks.append({
        "property_id": pid,
        "quick_cmd": "python3 check.py %s --tier quick" % pid,
        "thorough_cmd": "python3 check.py %s --tier thorough" % pid,
        "evidence_file": "/verif/evidence/%s.json" % pid,
        "replay_cmd_template": "python3 check.py %s --replay {path}" % pid,
        "engine": P.get("engine", "vf"),
        "level_claimed": {"category": P["level"], "text": P["level_text"], "design_ref": P.get("design_ref", "DESIGN.md section 3 " + pid)},
        "level_note": P["level_note"],
        "technique": P["technique"],
    })
na = [{"property_id": pid, "reason": NOT_APPLICABLE.get(pid, "check not yet built in this commit; see DESIGN.md section 3 for the planned design")}
      for pid in all_ids if pid not in PROPS]
m = {
    "version": 1,
    "setup_cmd": "python3 build.py --all",
    "hooks": {
        "guard": "BENMCOLLINS_LIBJWT_VERIF",
        "enable": "build.py compiles /repo's working tree directly with -DBENMCOLLINS_LIBJWT_VERIF (no source hook is needed: "
                  "time(), the allocator (jwt_set_alloc), the provider (jwt_set_crypto_ops) and link-time wrapping are the seams)",
        "baseline_off_cmd": "cmake --build /repo/_build && ctest --test-dir /repo/_build -j8 --timeout 900",
        "source_commits": HOOK_COMMITS,
        "add_only": True,
    },
    "engines": [
        {"name": "vf", "path": "/verif/engine/vf.c",
         "serves_properties": [c["property_id"] for c in checks],
         "kind_free_text": "exhaustive bounded enumeration runtime: sharded case enumeration over fork-isolated workers, "
                           "owned clock/allocator, per-case watchdog, replay-before-report, outcome/non-trivial accounting"},
    ],
    "checks": checks,
    "not_applicable": na,
    "notes": "All checks are bounded-exhaustive explorations of the real compiled library (no sampling, no solver). "
             "See DESIGN.md.",
}
json.dump(m, open(os.path.join(VERIF, "MANIFEST.json"), "w"), indent=1)
print("MANIFEST.json: %d checks, %d not_applicable" % (len(checks), len(na)))
