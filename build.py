#!/usr/bin/env python3
"""Build libjwt from /repo's *current working tree* plus the harnesses.

Usage:  build.py [--all] [--variant asan|plain|tsan ...] [--print-dir]

Output: /verif/build/<hash>/<variant>/{obj/*.o, libjwt.a, bin/<harness>}
        /verif/build/<hash>/tools/{jwt-verify,jwt-generate,key2jwk,jwk2key}
<hash> covers the repo sources (libjwt/, include/, tools/) and the
verification sources (engine/, harness/), so any edit on either side
triggers a rebuild.  Nothing outside /verif/build is written.
"""
import hashlib, os, sys, subprocess, shutil, fcntl, time
from concurrent.futures import ThreadPoolExecutor

VERIF = os.path.dirname(os.path.abspath(__file__))
REPO = os.environ.get("VERIF_REPO", "/repo")
BUILD = os.path.join(VERIF, "build")

LIB_TUS = [
    "libjwt/base64.c", "libjwt/jwt-memory.c", "libjwt/jwt.c", "libjwt/jwks.c",
    "libjwt/jwt-setget.c", "libjwt/jwt-crypto-ops.c", "libjwt/jwt-encode.c",
    "libjwt/jwt-verify.c", "libjwt/jwt-builder.c", "libjwt/jwt-checker.c",
    "libjwt/jwks-curl.c", "libjwt/gnutls/sign-verify.c",
    "libjwt/openssl/jwk-parse.c", "libjwt/openssl/sign-verify.c",
]
TOOLS = ["jwt-verify", "jwt-generate", "key2jwk", "jwk2key"]

DEFS = ["-DJWT_STATIC_DEFINE", "-DHAVE_OPENSSL", "-DHAVE_GNUTLS", "-D_GNU_SOURCE",
        "-DBENMCOLLINS_LIBJWT_VERIF", '-DKEYDIR="%s/tests/keys"' % REPO]
LIBS = ["-ljansson", "-lgnutls", "-lssl", "-lcrypto", "-lpthread"]

VARIANTS = {
    # -include stddef.h: ll.h falls back to a null-pointer offsetof otherwise,
    # which UBSan reports on every list walk (an idiom, not a defect).
    "asan": dict(cc="clang", cflags=["-O1", "-g", "-fno-omit-frame-pointer",
                 "-fsanitize=address,undefined", "-fno-sanitize-recover=undefined",
                 "-include", "stddef.h"],
                 ldflags=["-fsanitize=address,undefined"]),
    "plain": dict(cc="gcc", cflags=["-O2", "-g", "-include", "stddef.h"], ldflags=[]),
    "tsan": dict(cc="clang", cflags=["-O1", "-g", "-fsanitize=thread", "-include", "stddef.h"],
                 ldflags=["-fsanitize=thread"]),
}

# harness name -> (sources relative to /verif, variants it is built for)
HARNESSES = {}


def _load_harness_table():
    import json
    p = os.path.join(VERIF, "harness", "HARNESSES.json")
    if os.path.exists(p):
        with open(p) as f:
            HARNESSES.update(json.load(f))


def tree_files(root, subdirs, exts):
    out = []
    for sd in subdirs:
        base = os.path.join(root, sd)
        for dp, dn, fn in os.walk(base):
            dn.sort()
            for f in sorted(fn):
                if f.endswith(exts):
                    out.append(os.path.join(dp, f))
    return out


def source_hash():
    h = hashlib.sha256()
    files = tree_files(REPO, ["libjwt", "include", "tools"], (".c", ".h", ".i"))
    files += tree_files(VERIF, ["engine", "harness"], (".c", ".h", ".json"))
    files.append(os.path.abspath(__file__))
    for f in files:
        h.update(f.encode())
        with open(f, "rb") as fh:
            h.update(hashlib.sha256(fh.read()).digest())
    return h.hexdigest()[:16]


def run(cmd, **kw):
    r = subprocess.run(cmd, stdout=subprocess.PIPE, stderr=subprocess.STDOUT, text=True, **kw)
    if r.returncode != 0:
        sys.stderr.write("BUILD FAILED: %s\n%s\n" % (" ".join(cmd), r.stdout))
        raise SystemExit(2)
    return r.stdout


def build_variant(root, variant, pool):
    v = VARIANTS[variant]
    vdir = os.path.join(root, variant)
    obj = os.path.join(vdir, "obj")
    bind = os.path.join(vdir, "bin")
    os.makedirs(obj, exist_ok=True)
    os.makedirs(bind, exist_ok=True)
    gen = os.path.join(root, "gen")
    inc = ["-I", os.path.join(REPO, "include"), "-I", gen, "-I", os.path.join(REPO, "libjwt"),
           "-I", os.path.join(VERIF, "engine")]
    jobs = []
    objs = []
    for tu in LIB_TUS:
        o = os.path.join(obj, tu.replace("/", "_")[:-2] + ".o")
        objs.append(o)
        jobs.append([v["cc"]] + v["cflags"] + DEFS + inc + ["-w", "-c", os.path.join(REPO, tu), "-o", o])
    list(pool.map(run, jobs))
    lib = os.path.join(vdir, "libjwt.a")
    if os.path.exists(lib):
        os.unlink(lib)
    run(["ar", "rcs", lib] + objs)
    # engine objects (vf.c etc.); sched.c is never sanitizer-instrumented
    eng_srcs = sorted(f for f in os.listdir(os.path.join(VERIF, "engine")) if f.endswith(".c"))
    ejobs, eobjs = [], {}
    for s in eng_srcs:
        o = os.path.join(obj, "eng_" + s[:-2] + ".o")
        eobjs[s] = o
        cf = list(v["cflags"])
        if s == "vsched.c":
            cf = [c for c in cf if not c.startswith("-fsanitize") and not c.startswith("-fno-sanitize")]
        ejobs.append([v["cc"]] + cf + DEFS + inc + ["-Wall", "-c", os.path.join(VERIF, "engine", s), "-o", o])
    list(pool.map(run, ejobs))
    hjobs = []
    for name, spec in HARNESSES.items():
        if variant not in spec.get("variants", ["asan"]):
            continue
        srcs = [os.path.join(VERIF, s) for s in spec["sources"]]
        eng = [eobjs[e] for e in spec.get("engine", ["vf.c"]) if e in eobjs]
        extra = spec.get("ldflags", [])
        hjobs.append([v["cc"]] + v["cflags"] + DEFS + inc + ["-Wall", "-Wno-unused-function"] + srcs + eng +
                     [lib] + v["ldflags"] + extra + LIBS + ["-o", os.path.join(bind, name)])
    list(pool.map(run, hjobs))


def build_tools(root, pool):
    tdir = os.path.join(root, "tools")
    os.makedirs(tdir, exist_ok=True)
    gen = os.path.join(root, "gen")
    lib = os.path.join(root, "plain", "libjwt.a")
    inc = ["-I", os.path.join(REPO, "include"), "-I", gen, "-I", os.path.join(REPO, "libjwt")]
    jobs = []
    for t in TOOLS:
        jobs.append(["gcc", "-O2", "-g", "-w"] + DEFS + inc + [os.path.join(REPO, "tools", t + ".c"), lib] +
                    LIBS + ["-o", os.path.join(tdir, t)])
    list(pool.map(run, jobs))


def ensure(variants, want_tools=False, quiet=True):
    _load_harness_table()
    os.makedirs(BUILD, exist_ok=True)
    lockf = open(os.path.join(BUILD, ".lock"), "w")
    fcntl.flock(lockf, fcntl.LOCK_EX)
    try:
        h = source_hash()
        root = os.path.join(BUILD, h)
        gen = os.path.join(root, "gen")
        os.makedirs(gen, exist_ok=True)
        with ThreadPoolExecutor(16) as pool:
            if not os.path.exists(os.path.join(gen, ".done")):
                shutil.copy(os.path.join(VERIF, "engine", "jwt_export.h.in"), os.path.join(gen, "jwt_export.h"))
                inc = ["-I", os.path.join(REPO, "include"), "-I", gen, "-I", os.path.join(REPO, "libjwt")]
                for which, out in (("-DJWT_BUILDER", "jwt-builder.i"), ("-DJWT_CHECKER", "jwt-checker.i")):
                    run(["cc", "-E", os.path.join(REPO, "libjwt", "jwt-common.c"), which] + DEFS + inc +
                        ["-o", os.path.join(gen, out)])
                open(os.path.join(gen, ".done"), "w").close()
            vs = list(variants)
            if want_tools and "plain" not in vs:
                vs.append("plain")
            for v in vs:
                stamp = os.path.join(root, v, ".done")
                if not os.path.exists(stamp):
                    t0 = time.time()
                    build_variant(root, v, pool)
                    open(stamp, "w").close()
                    if not quiet:
                        print("built %s/%s in %.1fs" % (h, v, time.time() - t0))
            if want_tools:
                stamp = os.path.join(root, "tools", ".done")
                if not os.path.exists(stamp):
                    build_tools(root, pool)
                    open(stamp, "w").close()
        # prune: keep the 3 most recently used build dirs
        os.utime(root, None)
        dirs = [os.path.join(BUILD, d) for d in os.listdir(BUILD)
                if os.path.isdir(os.path.join(BUILD, d)) and len(d) == 16]
        dirs.sort(key=lambda d: os.path.getmtime(d), reverse=True)
        for d in dirs[3:]:
            shutil.rmtree(d, ignore_errors=True)
        return root
    finally:
        fcntl.flock(lockf, fcntl.LOCK_UN)
        lockf.close()


def main():
    args = sys.argv[1:]
    variants = []
    tools = False
    if "--all" in args:
        variants = list(VARIANTS)
        tools = True
    i = 0
    while i < len(args):
        if args[i] == "--variant":
            variants.append(args[i + 1]); i += 1
        elif args[i] == "--tools":
            tools = True
        i += 1
    if not variants:
        variants = ["asan"]
    root = ensure(variants, tools, quiet=False)
    print(root)


if __name__ == "__main__":
    main()
